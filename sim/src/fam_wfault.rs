//! Family WFAULT (C12): destination faults. A fault-free run of a workload yields the golden event
//! log and bytes; then, for every operation k the workload issues on each destination, one run
//! per fault class with the fault at k. Surfacing is judged with the API-call brackets.

use crate::core::*;
use crate::gen::*;
use crate::geom::*;
use crate::prng::Rng;
use crate::scn::{Scenario, UnitCtl};
use crate::world::*;
use crate::wrun::*;
use serde::{Deserialize, Serialize};

#[derive(Clone, Debug, Serialize, Deserialize)]
pub struct WfScn {
    pub w: WProg,
    pub plan: Plan,
}

pub fn generate_workload(r: &mut Rng) -> WProg {
    let ty = *r.pick(&TYPES);
    let mut k = ShapeKnobs::draw(r);
    k.max_parts = k.max_parts.min(3);
    k.max_pts = k.max_pts.min(4);
    let n = r.usize(1, 4);
    let shapes: Vec<ShapeSpec> = (0..n).map(|_| gen_spec(r, ty, &k)).collect();
    let mut calls = Vec::new();
    if r.chance(1, 10) {
        calls.push(if r.chance(1, 2) { WCall::Fin } else { WCall::FinRetry });
    }
    for i in 0..n {
        calls.push(WCall::W(i));
        if r.chance(1, 3) {
            // mostly retried at once when it fails; sometimes the caller just goes on and
            // finalizes again later
            calls.push(if r.chance(1, 3) { WCall::Fin } else { WCall::FinRetry });
            if r.chance(1, 3) {
                calls.push(WCall::FinRetry);
            }
        }
    }
    if r.chance(2, 3) {
        calls.push(WCall::FinRetry);
    }
    let stack = match r.below(4) {
        0 | 1 => StackCfg::Direct,
        2 => StackCfg::Buf(*r.pick(&[1u32, 5, 13, 64, 100])),
        _ => StackCfg::Buf(8192),
    };
    WProg { shapes, others: vec![], calls, ending: Ending::Drop, with_shx: r.chance(4, 5), stack }
}

struct Golden {
    shp: Vec<u8>,
    shx: Vec<u8>,
    ops: [u32; 2],
}

fn golden(w: &WProg) -> Option<Golden> {
    let world = World::new(Plan::default());
    let run = run_writer(&world, w);
    if run.build_panic.is_some() || run.marks.iter().any(|m| !m.res.is_ok()) {
        return None;
    }
    let wb = world.borrow();
    Some(Golden { shp: wb.data(SHP).to_vec(), shx: wb.data(SHX).to_vec(), ops: [wb.devices[SHP].ops, wb.devices[SHX].ops] })
}

fn fault_site(world: &World, ei: usize, marks: &[Mark]) -> String {
    let e = &world.log[ei];
    let call = marks.iter().find(|m| ei >= m.first_ev && ei < m.end_ev).map(|m| m.call.split('(').next().unwrap_or("")).unwrap_or("?");
    let op = match e.kind {
        OpKind::Write => {
            if e.pos < 100 {
                "header-write"
            } else {
                "body-write"
            }
        }
        OpKind::Seek => "seek",
        OpKind::Flush => "flush",
        OpKind::Read => "read",
    };
    format!("{}:{}:{}", call, DEV_NAMES[e.dev as usize], op)
}

pub fn execute(scn: &WfScn, ctx: &mut Ctx) {
    if scn.w.calls.iter().any(|c| matches!(c, WCall::Other(_))) || matches!(scn.w.ending, Ending::WriteShapes(_)) {
        // workloads of the wfault-c02 phase with rejected writes in between or ended by the bulk call: judged there only
        execute_c02(scn, ctx);
        return;
    }
    let Some(g) = golden(&scn.w) else {
        ctx.fail("HARNESS", "invalid-scenario", "workload", "workload does not run cleanly without faults".to_string());
        return;
    };
    run_faulted(scn, &g, ctx);
    execute_c05(scn, None, ctx);
    execute_c02(scn, ctx);
}

fn run_faulted(scn: &WfScn, g: &Golden, ctx: &mut Ctx) {
    let world = World::new(scn.plan.clone());
    let run = run_writer(&world, &scn.w);
    let wb = world.borrow();
    ctx.stats.absorb_world(&wb);
    let pat = pattern(&scn.w);
    // no panic anywhere, including in Drop with a failing destination
    for m in &run.marks {
        if let CallRes::Panic(msg, loc) = &m.res {
            ctx.fail("C12", "panic", format!("panic:{}:{}", m.call.split('(').next().unwrap_or(""), loc.rsplit('/').next().unwrap_or("").split(':').next().unwrap_or("")), format!("history {}: {} panicked under a destination fault: {} at {}", pat, m.call, msg, loc));
        }
    }
    if run.marks.iter().any(|m| matches!(m.res, CallRes::Panic(..))) {
        return;
    }
    // every non-retryable failed device operation must surface from the call in progress
    let mut any_hard_fault = false;
    let mut fault_in_finalize_first_attempt = false;
    let mut fault_in_write = false;
    let mut fault_in_retry = false;
    let mut fault_in_drop = false;
    for (ei, e) in wb.log.iter().enumerate() {
        let failed = e.err.is_some() || e.fault == Some("zero");
        if !failed {
            continue;
        }
        let retryable = e.kind == OpKind::Write && e.err == Some(std::io::ErrorKind::Interrupted);
        if retryable {
            continue;
        }
        any_hard_fault = true;
        let Some(m) = run.marks.iter().find(|m| ei >= m.first_ev && ei < m.end_ev) else {
            ctx.fail("HARNESS", "event-outside-call", "marks", format!("event {} outside every API call", ei));
            continue;
        };
        ctx.stats.reach(&format!("fault-in:{}", fault_site(&wb, ei, &run.marks)));
        if m.call == "drop" {
            // Drop swallows errors by design; only "no panic" is claimed
            fault_in_drop = true;
            continue;
        }
        if m.call == "finalize" && !m.is_retry {
            fault_in_finalize_first_attempt = true;
        }
        if m.call == "finalize" && m.is_retry {
            fault_in_retry = true;
        }
        if m.call.starts_with("write") {
            fault_in_write = true;
        }
        if m.res.is_ok() {
            ctx.fail(
                "C12",
                "surfaces-from-failing-call",
                fault_site(&wb, ei, &run.marks),
                format!("history {}: device operation {:?} on {} at pos {} failed ({:?}{}) during {}, which returned Ok", pat, e.kind, DEV_NAMES[e.dev as usize], e.pos, e.err, if e.fault == Some("zero") { " Ok(0)" } else { "" }, m.call),
            );
        }
    }
    // C18 at the seam, under faults too: whenever a write reports success, the bytes that reached the
    // .shp during the call are the 8-byte record header, the type code and exactly the announced size (Direct stack: nothing of the harness buffers in between)
    if scn.w.stack == StackCfg::Direct {
        for m in &run.marks {
            if let (Some(a), true) = (m.announced, m.res.is_ok()) {
                // where they went is not C18's business (after a write that failed inside the header
                // reservation the next record is not where it belongs): the count is, with or
                // without the 100 bytes of a header reserved by the same call
                let record_bytes: u64 = wb.log[m.first_ev..m.end_ev].iter().filter(|e| e.dev as usize == SHP && e.kind == OpKind::Write).map(|e| e.moved as u64).sum();
                if record_bytes != 12 + a as u64 && record_bytes != 112 + a as u64 {
                    ctx.fail("C18", "bytes-at-seam-under-faults", type_name(scn.w.shapes.first().map(|s| s.ty).unwrap_or(0)), format!("history {}: {} returned Ok and {} bytes reached the .shp for an announced size of {} (+12)", pat, m.call, record_bytes, a));
                }
            }
        }
    }
    let any_err = run.marks.iter().any(|m| !m.res.is_ok());
    let shp = wb.data(SHP);
    let shx = wb.data(SHX);
    let same = shp == &g.shp[..] && (!scn.w.with_shx || shx == &g.shx[..]);
    if !any_hard_fault {
        // only masked disturbances (short writes, EINTR on writes): byte-identical output or a failing call
        if !any_err && !same {
            let what = if scn.plan.is_clean() { "clean" } else { "masked-schedule" };
            ctx.fail("C12", "masked-faults-identical-output", what, format!("history {}: every call returned Ok under short writes / EINTR but the files differ from the undisturbed run (shp {} vs {} bytes)", pat, shp.len(), g.shp.len()));
        }
        if !same {
            ctx.stats.reach("masked-run-failed-call");
        } else {
            ctx.stats.reach("masked-run-identical");
        }
        return;
    }
    // finalize retry: a one-shot fault that hit a finalize's first attempt (and nothing else)
    let one_shot = scn.plan.faults.iter().all(|f| !f.persistent) && scn.plan.dev.iter().all(|d| d.capacity.is_none());
    // "A finalize that failed can be called again and, once the destination works, completes both
    // files exactly as an undisturbed run would": every fault landed inside a finalize call
    // (retried at once or not), none in a write or in the drop; the history always ends with the
    // finalize run by Drop, which meets no fault.
    let all_finalizes_eventually_ok = true;
    if fault_in_retry {
        ctx.stats.reach("fault-in-finalize-retry");
    }
    if run.marks.iter().any(|m| m.call == "finalize" && !m.is_retry && !m.res.is_ok() && matches!(scn.w.calls.get(m.call_no), Some(WCall::Fin))) {
        ctx.stats.reach("failed-finalize-not-retried-at-once");
    }
    if one_shot && fault_in_finalize_first_attempt && !fault_in_write && !fault_in_drop && all_finalizes_eventually_ok {
        ctx.stats.reach("finalize-retry-judged");
        // "once the destination works": the last attempt of every retried finalize ran without a
        // fault in its event range and must succeed
        for (i, m) in run.marks.iter().enumerate() {
            let last_attempt = m.is_retry && run.marks.get(i + 1).map(|n| !(n.is_retry && n.call_no == m.call_no)).unwrap_or(true);
            let faulted = wb.log[m.first_ev..m.end_ev].iter().any(|e| e.err.is_some() || e.fault == Some("zero"));
            if m.is_retry && !faulted && !m.res.is_ok() {
                ctx.fail("C12", "finalize-retry-ok", "retry", format!("history {}: a retried finalize met no fault but returned {}", pat, m.res.short()));
            }
            let _ = last_attempt;
        }
        if !same {
            ctx.fail("C12", "finalize-retry-golden", "retry", format!("history {}: after a failed finalize and its retry the final files differ from the undisturbed run (shp {} vs {} bytes, shx {} vs {})", pat, shp.len(), g.shp.len(), shx.len(), g.shx.len()));
        }
    }
    let sig = format!("{}|{:?}|{}", pat, scn.plan.faults.first().map(|f| (f.dev, f.kind, f.persistent)), run.marks.iter().map(|m| if m.res.is_ok() { 'o' } else { 'e' }).collect::<String>());
    ctx.stats.distinct.insert(crate::prng::fnv_str(&sig));
}

/// One unit = one seeded workload x every operation k on each destination x fault classes,
/// plus every chunk pattern on its own.
pub fn unit(seed: u64, ctx: &mut Ctx, ctl: &mut UnitCtl) {
    let mut r = Rng::new(seed);
    let w = generate_workload(&mut r);
    let Some(g) = golden(&w) else {
        ctx.fail("HARNESS", "invalid-scenario", "workload", format!("generated workload does not run cleanly: {}", pattern(&w)));
        ctl.after_case(ctx, || Scenario::WFault(WfScn { w: w.clone(), plan: Plan::default() }));
        return;
    };
    let kinds: [u8; 4] = [0, 1, 2, 3];
    let ek_of = |k: u32, dev: usize| -> u8 { [0u8, 1, 2, 3][(k as usize + dev) % 4] };
    let mut case = |plan: Plan, ctx: &mut Ctx, ctl: &mut UnitCtl| {
        let scn = WfScn { w: w.clone(), plan };
        if !ctl.before_case(|| Scenario::WFault(scn.clone())) {
            return;
        }
        ctx.stats.evaluations += 1;
        run_faulted(&scn, &g, ctx);
        if ctx.stats.samples.len() < 2 && !scn.plan.faults.is_empty() && scn.plan.faults[0].at == 20 {
            ctx.stats.samples.push(serde_json::json!({"history": pattern(&scn.w), "stack": format!("{:?}", scn.w.stack), "plan": scn.plan}));
        }
        ctl.after_case(ctx, || Scenario::WFault(scn.clone()));
    };
    let ndev = if w.with_shx { 2 } else { 1 };
    // which operations of the undisturbed run are seeks (a seek may also move and then fail)
    let seek_ops: [Vec<u32>; 2] = {
        let world = World::new(Plan::default());
        let _ = run_writer(&world, &w);
        let wb = world.borrow();
        let of = |d: usize| wb.events_of(d).iter().enumerate().filter(|(_, ei)| wb.log[**ei].kind == OpKind::Seek).map(|(k, _)| k as u32).collect::<Vec<u32>>();
        [of(SHP), of(SHX)]
    };
    for dev in 0..ndev {
        for k in 0..g.ops[dev] {
            let ek = kinds[(k as usize + dev) % 4];
            for (kind, persistent) in [(FaultKind::Err(ek), false), (FaultKind::Err(ek), true), (FaultKind::Zero, false), (FaultKind::Eintr, false), (FaultKind::ErrMoved(ek), false)] {
                if matches!(kind, FaultKind::ErrMoved(_)) && !seek_ops[dev].contains(&k) {
                    continue;
                }
                let mut plan = Plan::default();
                plan.faults.push(Fault { dev: dev as u8, at: k, kind, persistent });
                case(plan, ctx, ctl);
            }
        }
        // every error kind a stream can report (table in world::err_kind): each seek of the
        // undisturbed run fails once with each of them (plain and moved-then-failed alternate), and
        // every other operation with two of them chosen by the seed. No kind but Interrupted means
        // anything to the library or to std's adaptors, so the oracle is the same for all.
        for k in 0..g.ops[dev] {
            let is_seek = seek_ops[dev].contains(&k);
            let codes: Vec<u8> = if is_seek {
                (6..crate::world::N_ERR_KINDS).collect()
            } else {
                let span = (crate::world::N_ERR_KINDS - 6) as u64;
                vec![6 + ((seed.wrapping_add(k as u64 * 5 + dev as u64 * 3)) % span) as u8, 6 + ((seed / 7).wrapping_add(k as u64 * 11 + dev as u64) % span) as u8]
            };
            for code in codes {
                let kind = if is_seek && (code as u32 + k) % 3 == 0 { FaultKind::ErrMoved(code) } else { FaultKind::Err(code) };
                let mut plan = Plan::default();
                plan.faults.push(Fault { dev: dev as u8, at: k, kind, persistent: false });
                ctx.stats.reach("fault-of-exotic-error-kind");
                case(plan, ctx, ctl);
            }
        }
        // two and three consecutive one-shot faults: the retry itself fails, a later retry succeeds
        for k in 0..g.ops[dev] {
            for extra in [vec![1u32], vec![2], vec![1, 2], vec![1, 14]] {
                let mut plan = Plan::default();
                plan.faults.push(Fault { dev: dev as u8, at: k, kind: FaultKind::Err(ek_of(k, dev)), persistent: false });
                for d in &extra {
                    plan.faults.push(Fault { dev: dev as u8, at: k + d, kind: FaultKind::Err(ek_of(k + d, dev)), persistent: false });
                }
                case(plan, ctx, ctl);
            }
        }
        // disk-full at every byte capacity up to the golden size (stride for large files)
        let total = if dev == 0 { g.shp.len() } else { g.shx.len() };
        let step = (total / 150).max(1);
        let mut c = 0;
        while c < total {
            let mut plan = Plan::default();
            plan.dev[dev].capacity = Some(c as u64);
            case(plan, ctx, ctl);
            c += step;
        }
    }
    // short-write schedules on their own, from one byte per call upward, and with EINTR
    for c in CHUNK_SIZES.iter().filter(|c| **c != 0) {
        for e in [None, Some((3u32, 1u32))] {
            let mut plan = Plan::default();
            for d in 0..2 {
                plan.dev[d].chunks = vec![*c];
                plan.dev[d].eintr = e;
            }
            case(plan, ctx, ctl);
        }
    }
    for _ in 0..6 {
        let mut plan = Plan::default();
        plan.dev[SHP] = gen_devcfg(&mut r, true);
        plan.dev[SHX] = gen_devcfg(&mut r, true);
        // sometimes combine a schedule with a one-shot fault
        if r.chance(1, 2) {
            let dev = r.below(ndev as u64) as usize;
            plan.faults.push(Fault { dev: dev as u8, at: r.below(g.ops[dev].max(1) as u64 * 2) as u32, kind: FaultKind::Err(r.below(4) as u8), persistent: false });
        }
        case(plan, ctx, ctl);
    }
}

/// C05 under a cleanly failed write: a one-shot fault on the very first device operation of a
/// non-first write_shape (Direct stack, so nothing of the record was transferred) makes that
/// call fail; the history goes on. The finalized header box must equal the extremes of the
/// shapes that were written - the failed one is not among them.
pub fn unit_c05(seed: u64, ctx: &mut Ctx, ctl: &mut UnitCtl) {
    let mut r = Rng::new(seed);
    let ty = *r.pick(&TYPES);
    let mut k = ShapeKnobs::draw(&mut r);
    k.zm &= !F_NAN;
    k.max_parts = k.max_parts.min(3);
    k.max_pts = k.max_pts.min(4);
    let n = r.usize(2, 5);
    let shapes: Vec<ShapeSpec> = (0..n).map(|_| gen_spec(&mut r, ty, &k)).collect();
    let mut calls: Vec<WCall> = Vec::new();
    for i in 0..n {
        calls.push(WCall::W(i));
        if r.chance(1, 3) {
            calls.push(if r.chance(1, 2) { WCall::Fin } else { WCall::FinRetry });
        }
    }
    let w = WProg { shapes, others: vec![], calls, ending: if r.chance(1, 2) { Ending::Drop } else { Ending::FinDrop }, with_shx: r.chance(1, 2), stack: StackCfg::Direct };
    // golden run: where does each write call start on the .shp device?
    let world = World::new(Plan::default());
    let run = run_writer(&world, &w);
    if run.build_panic.is_some() || run.marks.iter().any(|m| !m.res.is_ok()) {
        ctx.fail("HARNESS", "invalid-scenario", "workload", "generated workload does not run cleanly".to_string());
        ctl.after_case(ctx, || Scenario::WFault(WfScn { w: w.clone(), plan: Plan::default() }));
        return;
    }
    // for every write call: the .shp operation index of its first *record* operation (for the first
    // write of the file that is after the header was reserved); for every finalize: its .shp op range
    let (firsts, fins): (Vec<(usize, u32)>, Vec<(u32, u32)>) = {
        let wb = world.borrow();
        let shp_ops_before = |ev: usize| wb.log[..ev].iter().filter(|e| e.dev as usize == SHP).count() as u32;
        let firsts = run
            .marks
            .iter()
            .filter(|m| m.call.starts_with("write("))
            .map(|m| {
                let rec_ev = (m.first_ev..m.end_ev).find(|i| wb.log[*i].dev as usize == SHP && wb.log[*i].kind == OpKind::Write && wb.log[*i].pos >= 100).unwrap_or(m.first_ev);
                (m.call_no, shp_ops_before(rec_ev))
            })
            .collect();
        let fins = run.marks.iter().filter(|m| m.call == "finalize").map(|m| (shp_ops_before(m.first_ev), shp_ops_before(m.end_ev))).filter(|(a, b)| b > a).collect();
        (firsts, fins)
    };
    for (call_no, op) in firsts {
        let mut plans = vec![{
            let mut plan = Plan::default();
            plan.faults.push(Fault { dev: SHP as u8, at: op, kind: FaultKind::Err((op % 4) as u8), persistent: false });
            plan
        }];
        // the same, plus a later finalize that fails once at one of its operations (retried at once
        // by a FinRetry call of the workload, or simply followed by the next finalize / the drop)
        for (a, b) in fins.iter().filter(|(a, _)| *a > op) {
            for k in [*a, (*a + *b) / 2, *b - 1] {
                let mut plan = Plan::default();
                plan.faults.push(Fault { dev: SHP as u8, at: op, kind: FaultKind::Err((op % 4) as u8), persistent: false });
                plan.faults.push(Fault { dev: SHP as u8, at: k, kind: FaultKind::Err(((k + 1) % 4) as u8), persistent: false });
                plans.push(plan);
            }
        }
        for plan in plans {
            let scn = WfScn { w: w.clone(), plan };
            if !ctl.before_case(|| Scenario::WFault(scn.clone())) {
                continue;
            }
            ctx.stats.evaluations += 1;
            execute_c05(&scn, Some(call_no), ctx);
            ctl.after_case(ctx, || Scenario::WFault(scn.clone()));
        }
    }
}

/// Run a faulted workload and judge C05 on the final header if exactly the write calls hit by a
/// fault on their first device operation failed and nothing else did.
pub fn execute_c05(scn: &WfScn, expect_failed_call: Option<usize>, ctx: &mut Ctx) {
    if scn.w.stack != StackCfg::Direct {
        return;
    }
    let world = World::new(scn.plan.clone());
    let run = run_writer(&world, &scn.w);
    if run.build_panic.is_some() {
        return;
    }
    let wb = world.borrow();
    ctx.stats.absorb_world(&wb);
    // a failed write is "clean" if it transferred no record byte (nothing at or beyond byte 100 of
    // either file); failed finalize calls do not matter here (they rewrite the headers only)
    let mut failed_clean = true;
    let mut failed_writes = Vec::new();
    for m in &run.marks {
        if m.res.is_ok() {
            continue;
        }
        if matches!(m.res, CallRes::Panic(..)) {
            return;
        }
        if m.call == "finalize" || m.call == "drop" {
            ctx.stats.reach("c05-history-with-failed-finalize");
            continue;
        }
        failed_writes.push(m.call_no);
        let record_bytes: u64 = wb.log[m.first_ev..m.end_ev].iter().filter(|e| e.kind == OpKind::Write && e.pos + e.moved as u64 > 100).map(|e| e.moved as u64).sum();
        if !m.call.starts_with("write(") || record_bytes != 0 {
            failed_clean = false;
        }
    }
    if failed_writes.is_empty() || !failed_clean {
        ctx.stats.reach("c05-fault-not-a-clean-failed-write");
        return;
    }
    if let Some(c) = expect_failed_call {
        if !failed_writes.contains(&c) {
            ctx.stats.reach("c05-fault-hit-another-call");
        }
    }
    // the last finalize of the history (the one run by Drop at the latest) must have gone through
    if wb.log[run.marks.last().map(|m| m.first_ev).unwrap_or(0)..].iter().any(|e| e.err.is_some()) {
        return;
    }
    let ty = scn.w.shapes[0].ty;
    let written: Vec<&Geom> = run.written.iter().map(|i| &run.geoms[*i]).collect();
    if written.is_empty() {
        // every write failed: the header was reserved but no shape exists whose extremes it could
        // hold - C05 makes no claim about that box
        ctx.stats.reach("c05-no-shape-written-at-all");
        return;
    }
    ctx.stats.reach("c05-clean-failed-write-judged");
    match crate::refcodec::decode_layout(wb.data(SHP)) {
        Ok(dec) => {
            if dec.recs.len() != written.len() {
                ctx.stats.reach("c05-record-count-differs-after-failed-write");
                return;
            }
            crate::fam_rt::check_header_bbox(ctx, "header after a write_shape that failed before transferring a byte", ty, &written, &dec.bbox);
        }
        Err(_) => ctx.stats.reach("c05-file-not-decodable-after-failed-write"),
    }
}


// ---------------------------------------------------------------------------------------------
// C02 after a finalize that failed: "every .shp the writer leaves behind after finalize or drop is
// well-formed" also holds for the file a *successful* finalize / drop leaves behind when an earlier
// finalize of the same writer had failed (retried at once, later, or never explicitly).

/// Judged when: Direct stack; no panic; every write_shape returned Ok; at least one finalize
/// failed; no device operation failed from the start of the last explicit finalize on (so that
/// finalize, or the drop, went through undisturbed) and that last finalize-like call returned Ok.
pub fn execute_c02(scn: &WfScn, ctx: &mut Ctx) {
    if scn.w.stack != StackCfg::Direct || scn.w.shapes.is_empty() {
        return;
    }
    let world = World::new(scn.plan.clone());
    let run = run_writer(&world, &scn.w);
    if run.build_panic.is_some() {
        return;
    }
    let wb = world.borrow();
    let mut failed_finalize = false;
    for m in &run.marks {
        match &m.res {
            CallRes::Panic(..) => return,
            CallRes::Ok => {}
            _ => {
                if m.call == "finalize" {
                    failed_finalize = true;
                } else if m.call.starts_with("write-other") && matches!(m.res, CallRes::Err(RErr::Mismatch { .. })) {
                    // a shape of another type offered in between: rejected, as it must be
                    ctx.stats.reach("c02-history-with-rejected-write");
                } else {
                    ctx.stats.reach("c02-fault-hit-a-write");
                    return;
                }
            }
        }
    }
    if !failed_finalize {
        return;
    }
    // from the last explicit finalize (if none succeeded: from the drop) on, nothing may have failed
    let from = run.marks.iter().rev().find(|m| m.call == "finalize" && m.res.is_ok()).or_else(|| run.marks.iter().rev().find(|m| m.call == "drop" || m.call == "write_shapes")).map(|m| m.first_ev);
    let Some(from) = from else { return };
    if wb.log[from..].iter().any(|e| e.err.is_some() || e.fault == Some("zero")) {
        ctx.stats.reach("c02-last-finalize-disturbed");
        return;
    }
    // a failed finalize after the last successful one must have been followed by the drop
    if let Some(last_fail) = run.marks.iter().rposition(|m| m.call == "finalize" && !m.res.is_ok()) {
        let later_ok = run.marks[last_fail..].iter().any(|m| (m.call == "finalize" && m.res.is_ok()) || m.call == "drop" || m.call == "write_shapes");
        if !later_ok {
            return;
        }
        // the drop's own finalize must then have been undisturbed
        let drop_from = run.marks.iter().rev().find(|m| m.call == "drop" || m.call == "write_shapes").map(|m| m.first_ev).unwrap_or(wb.log.len());
        if wb.log[drop_from..].iter().any(|e| e.err.is_some() || e.fault == Some("zero")) {
            return;
        }
    }
    ctx.stats.reach("c02-file-after-failed-finalize-judged");
    let ty = scn.w.shapes[0].ty;
    let written: Vec<&Geom> = run.written.iter().map(|i| &run.geoms[*i]).collect();
    let shx = if scn.w.with_shx { Some(wb.data(SHX)) } else { None };
    let _ = crate::fam_rt::check_bytes(ctx, ty, wb.data(SHP), shx, &written, "after-failed-finalize");
    // C09: a finalize that fails is still a finalize call of the interleaving - what the drop
    // leaves is what writing the same shapes and simply dropping the writer leaves
    let plain = WProg { shapes: scn.w.shapes.clone(), others: vec![], calls: scn.w.calls.iter().filter(|c| matches!(c, WCall::W(_))).cloned().collect(), ending: if matches!(scn.w.ending, Ending::WriteShapes(_)) { scn.w.ending.clone() } else { Ending::Drop }, with_shx: scn.w.with_shx, stack: StackCfg::Direct };
    if let Some(g) = golden(&plain) {
        if wb.data(SHP) != &g.shp[..] || (scn.w.with_shx && wb.data(SHX) != &g.shx[..]) {
            let at = wb.data(SHP).iter().zip(g.shp.iter()).position(|(a, b)| a != b);
            ctx.fail("C09", "same-as-drop", "after-failed-finalize", format!("history {} with a finalize that failed once: the files left by the drop differ from write-all-then-drop (.shp {} vs {} bytes, first difference at {:?})", pattern(&scn.w), wb.data(SHP).len(), g.shp.len(), at));
            // C12: once the destination works again, the files are completed exactly as an undisturbed run would
            ctx.fail("C12", "golden-after-failed-finalize", if scn.w.calls.iter().any(|c| matches!(c, WCall::Other(_))) { "with-rejected-write" } else { "plain" }, format!("history {} with a finalize that failed once: the files left by the drop differ from those of the undisturbed run (.shp {} vs {} bytes, first difference at {:?})", pattern(&scn.w), wb.data(SHP).len(), g.shp.len(), at));
        }
    }
}

/// One unit = one seeded workload with finalize calls anywhere (plain or retried up to three
/// times) x every device operation of every finalize failed once, on either file.
pub fn unit_c02(seed: u64, ctx: &mut Ctx, ctl: &mut UnitCtl) {
    let mut r = Rng::new(seed);
    let ty = *r.pick(&TYPES);
    let mut k = ShapeKnobs::draw(&mut r);
    k.max_parts = k.max_parts.min(3);
    k.max_pts = k.max_pts.min(4);
    let n = r.usize(2, 5);
    let shapes: Vec<ShapeSpec> = (0..n).map(|_| gen_spec(&mut r, ty, &k)).collect();
    let mut calls: Vec<WCall> = Vec::new();
    for i in 0..n {
        calls.push(WCall::W(i));
        if r.chance(1, 2) {
            calls.push(if r.chance(1, 2) { WCall::Fin } else { WCall::FinRetry });
            if r.chance(1, 4) {
                calls.push(WCall::Fin);
            }
        }
    }
    if !calls.iter().any(|c| matches!(c, WCall::Fin | WCall::FinRetry)) {
        calls.insert(1, WCall::FinRetry);
    }
    let mut shapes = shapes;
    if r.chance(1, 3) {
        // nothing but NaN in Z and M up to the first finalize: the header ranges of those
        // dimensions are still untouched when it runs
        let first_fin = calls.iter().position(|c| matches!(c, WCall::Fin | WCall::FinRetry)).unwrap_or(0);
        let before: Vec<usize> = calls[..first_fin].iter().filter_map(|c| if let WCall::W(i) = c { Some(*i) } else { None }).collect();
        let which = r.below(3);
        for i in before {
            for p in shapes[i].parts.iter_mut() {
                for v in p.pts.iter_mut() {
                    if which != 1 {
                        v[3] = f64::NAN.to_bits();
                    }
                    if which != 0 {
                        v[2] = f64::NAN.to_bits();
                    }
                }
            }
        }
    }
    // in a third of the workloads a shape of another type is offered (and rejected) right after
    // each finalize call: a call that must not change anything, whatever the finalize left behind
    let mut others = vec![];
    if r.chance(1, 3) {
        let oty = *r.pick(&TYPES);
        if oty != ty {
            others.push(gen_spec(&mut r, oty, &k));
            let mut c2 = Vec::new();
            let mut seen_write = false;
            for c in calls {
                let fin = matches!(c, WCall::Fin | WCall::FinRetry);
                seen_write |= matches!(c, WCall::W(_));
                c2.push(c);
                if fin && seen_write {
                    c2.push(WCall::Other(0));
                }
            }
            calls = c2;
        }
    }
    // a third of the workloads end with the bulk call (which consumes the writer) handed some of the shapes again
    let ending = match r.below(3) {
        0 => Ending::Drop,
        1 => Ending::FinDrop,
        _ => Ending::WriteShapes((0..r.usize(1, 3)).map(|_| r.usize(0, n - 1)).collect()),
    };
    let w = WProg { shapes, others, calls, ending, with_shx: r.chance(2, 3), stack: StackCfg::Direct };
    let world = World::new(Plan::default());
    let run = run_writer(&world, &w);
    if run.build_panic.is_some() || run.marks.iter().any(|m| !m.res.is_ok() && !m.call.starts_with("write-other")) {
        ctx.fail("HARNESS", "invalid-scenario", "workload", "generated workload does not run cleanly".to_string());
        ctl.after_case(ctx, || Scenario::WFault(WfScn { w: w.clone(), plan: Plan::default() }));
        return;
    }
    // per device: the operation indices issued by explicit finalize calls
    let mut ops: Vec<(u8, u32)> = Vec::new();
    {
        let wb = world.borrow();
        let mut count = [0u32; 3];
        let in_fin = |ei: usize| run.marks.iter().any(|m| m.call == "finalize" && ei >= m.first_ev && ei < m.end_ev);
        for (ei, e) in wb.log.iter().enumerate() {
            let d = e.dev as usize;
            if in_fin(ei) {
                ops.push((e.dev, count[d]));
            }
            count[d] += 1;
        }
    }
    for (dev, at) in ops {
        let mut plan = Plan::default();
        plan.faults.push(Fault { dev, at, kind: FaultKind::Err((at % 4) as u8), persistent: false });
        let scn = WfScn { w: w.clone(), plan };
        if !ctl.before_case(|| Scenario::WFault(scn.clone())) {
            continue;
        }
        ctx.stats.evaluations += 1;
        execute_c02(&scn, ctx);
        ctl.after_case(ctx, || Scenario::WFault(scn.clone()));
    }
}


/// What the child process of the "stderr-gone" scenario runs: a small history with every device
/// operation failing persistently in turn (so that the destination is still failing when the writer
/// is dropped), judged as any other WFAULT case - in a process whose standard error stream has lost
/// its reader, so that any diagnostic the library prints on an error path fails to be written.
pub fn stderr_gone_child(ctx: &mut Ctx) {
    for with_shx in [true, false] {
        let w = WProg { shapes: vec![grid_spec(3, 1, 2, 3), grid_spec(3, 2, 3, 50)], others: vec![], calls: vec![WCall::W(0), WCall::W(1), WCall::Fin, WCall::W(0)], ending: Ending::Drop, with_shx, stack: StackCfg::Direct };
        let Some(g) = golden(&w) else {
            ctx.fail("HARNESS", "invalid-scenario", "workload", "the stderr-gone workload does not run cleanly".to_string());
            return;
        };
        for dev in [SHP, SHX] {
            for k in 0..g.ops[dev] {
                for persistent in [true, false] {
                    let mut plan = Plan::default();
                    plan.faults.push(Fault { dev: dev as u8, at: k, kind: FaultKind::Err((k % 4) as u8), persistent });
                    let scn = WfScn { w: w.clone(), plan };
                    ctx.stats.evaluations += 1;
                    execute(&scn, ctx);
                }
            }
        }
    }
}

/// C12 around one large record: a polyline of 70 000 points (more than 1 MiB of content) between two
/// small ones, then finalize, written straight to the devices (no buffer of the harness in between,
/// so that every byte the library hands over reaches the device within the call); the first 40 and
/// the last 200 .shp operations of every call, and every .shx operation, fail once (one-shot and
/// persistent): the failure must surface from the call in progress.
pub fn large_unit(unit: u64, ctx: &mut Ctx, ctl: &mut UnitCtl) {
    // units 0..8: one part of 70 000 points; units 8..16: 1025 parts of two points; units 16..24: 2049
    // parts (more parts than any per-shape limit or block of the writer), the latter with Z and M
    let big = match unit / 8 {
        0 => grid_spec(3, 1, 70_000, 11),
        1 => grid_spec(3, 1025, 2, 11),
        _ => grid_spec(13, 2049, 2, 11),
    };
    let ty = big.ty;
    let many_parts = unit / 8 > 0;
    let w = WProg { shapes: vec![grid_spec(ty, 1, 2, 3), big, grid_spec(ty, 1, 3, 60)], others: vec![], calls: vec![WCall::W(0), WCall::W(1), WCall::W(2), WCall::Fin], ending: Ending::Drop, with_shx: true, stack: StackCfg::Direct };
    let Some(g) = golden(&w) else {
        ctx.fail("HARNESS", "invalid-scenario", "workload", "the large workload does not run cleanly".to_string());
        return;
    };
    ctx.stats.reach("large-record-workload");
    // per call: the .shp operation indices it issues in the undisturbed run
    let mut picks: Vec<(usize, u32)> = Vec::new();
    {
        let world = World::new(Plan::default());
        let run = run_writer(&world, &w);
        let wb = world.borrow();
        let shp_evs = wb.events_of(SHP);
        for m in &run.marks {
            let ops: Vec<u32> = shp_evs.iter().enumerate().filter(|(_, ei)| **ei >= m.first_ev && **ei < m.end_ev).map(|(k, _)| k as u32).collect();
            let n = ops.len();
            for (j, k) in ops.iter().enumerate() {
                // around the part offsets of a many-part shape every operation counts: the first 1200 too
                if j < 40 || j + 200 >= n || (many_parts && (j < 1200 || j % 7 == 0)) {
                    picks.push((SHP, *k));
                }
            }
        }
        for k in 0..g.ops[SHX] {
            picks.push((SHX, k));
        }
    }
    // the work is split over 8 units
    for (pi, (dev, k)) in picks.into_iter().enumerate() {
        if pi as u64 % 8 != unit % 8 {
            continue;
        }
        for persistent in [false, true] {
            let mut plan = Plan::default();
            plan.faults.push(Fault { dev: dev as u8, at: k, kind: FaultKind::Err((k % 4) as u8), persistent });
            let scn = WfScn { w: w.clone(), plan };
            if !ctl.before_case(|| Scenario::WFault(scn.clone())) {
                continue;
            }
            ctx.stats.evaluations += 1;
            run_faulted(&scn, &g, ctx);
            ctl.after_case(ctx, || Scenario::WFault(scn.clone()));
        }
    }
}
