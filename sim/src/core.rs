//! Shared vocabulary: failures, statistics, panic capture, error classification.

use crate::geom::*;
use serde::{Deserialize, Serialize};
use std::cell::RefCell;
use std::collections::{BTreeMap, HashSet};
use std::panic::{catch_unwind, AssertUnwindSafe};

/// One violated clause of one property, observed while executing a scenario.
#[derive(Clone, Debug, Serialize, Deserialize)]
pub struct Fail {
    pub prop: String,
    /// the clause of the property that failed (stable identifier)
    pub clause: String,
    /// semantic site (survives unrelated edits): history pattern, panic message class, field id...
    pub site: String,
    pub detail: String,
}

impl Fail {
    pub fn fingerprint(&self) -> String {
        format!("{}/{}/{}", self.prop, self.clause, self.site)
    }
}

#[derive(Default)]
pub struct Stats {
    pub evaluations: u64,
    pub steps: u64,
    pub faults: BTreeMap<String, u64>,
    pub reach: BTreeMap<String, u64>,
    pub distinct: HashSet<u64>,
    pub samples: Vec<serde_json::Value>,
    /// order-independent digest of every device event of every simulated world (determinism proof)
    pub log_digest: u64,
}

impl Stats {
    pub fn reach(&mut self, k: &str) {
        *self.reach.entry(k.to_string()).or_insert(0) += 1;
    }
    pub fn reach_n(&mut self, k: &str, n: u64) {
        *self.reach.entry(k.to_string()).or_insert(0) += n;
    }
    pub fn fault(&mut self, k: &str, n: u64) {
        *self.faults.entry(k.to_string()).or_insert(0) += n;
    }
    pub fn absorb_world(&mut self, w: &crate::world::World) {
        self.steps += w.log.len() as u64;
        let mut h: u64 = 0xcbf2_9ce4_8422_2325;
        for e in &w.log {
            for x in [e.dev as u64, e.kind as u64, e.pos, e.asked as u64, e.moved as u64, e.err.map(|k| k as u64 + 1).unwrap_or(0)] {
                h ^= x;
                h = h.wrapping_mul(0x1000_0000_01b3);
            }
        }
        self.log_digest = self.log_digest.wrapping_add(h);
        for (k, n) in &w.fired {
            self.fault(k, *n);
        }
    }
}

pub struct Ctx {
    pub fails: Vec<Fail>,
    pub stats: Stats,
}

impl Ctx {
    pub fn new() -> Ctx {
        Ctx { fails: Vec::new(), stats: Stats::default() }
    }
    pub fn fail(&mut self, prop: &str, clause: &str, site: impl Into<String>, detail: impl Into<String>) {
        let site: String = site.into();
        let prop = if site.starts_with("harness-panic") { "HARNESS" } else { prop };
        // keep the log bounded: at most 4 fails per (prop, clause)
        let n = self.fails.iter().filter(|f| f.prop == prop && f.clause == clause).count();
        if n < 4 {
            self.fails.push(Fail { prop: prop.into(), clause: clause.into(), site, detail: detail.into() });
        }
    }
}

thread_local! {
    static LAST_PANIC: RefCell<Option<(String, String)>> = const { RefCell::new(None) };
}

/// Install a quiet panic hook that records message and location (never a backtrace).
pub fn install_panic_hook() {
    std::panic::set_hook(Box::new(|info| {
        crate::alloc::suspend(true);
        let msg = if let Some(s) = info.payload().downcast_ref::<&str>() {
            s.to_string()
        } else if let Some(s) = info.payload().downcast_ref::<String>() {
            s.clone()
        } else {
            "panic".to_string()
        };
        let loc = info.location().map(|l| format!("{}:{}", l.file(), l.line())).unwrap_or_default();
        LAST_PANIC.with(|p| *p.borrow_mut() = Some((msg, loc)));
        crate::alloc::suspend(false);
    }));
}

#[derive(Clone, Debug)]
pub struct PanicInfo {
    pub msg: String,
    pub loc: String,
}

impl PanicInfo {
    /// message class + source file (not the line): stable across unrelated edits
    pub fn site(&self) -> String {
        let file = self.loc.rsplit('/').next().unwrap_or("").split(':').next().unwrap_or("");
        if self.loc.starts_with("src/") || self.loc.contains("/verif/sim/") {
            // a panic in the harness's own code is never a property violation
            return format!("harness-panic:{}", self.loc);
        }
        let class = if self.msg.contains("overflow") {
            "overflow"
        } else if self.msg.contains("capacity") {
            "capacity"
        } else if self.msg.contains("assertion") {
            "assertion"
        } else if self.msg.contains("index out of") || self.msg.contains("out of range") || self.msg.contains("out of bounds") {
            "index"
        } else if self.msg.contains("unwrap") {
            "unwrap"
        } else {
            "other"
        };
        format!("panic:{}:{}", class, file)
    }
    pub fn text(&self) -> String {
        format!("panic '{}' at {}", self.msg, self.loc)
    }
}

/// Run `f`, turning a panic into `Err(PanicInfo)`.
pub fn guarded<R>(f: impl FnOnce() -> R) -> Result<R, PanicInfo> {
    match catch_unwind(AssertUnwindSafe(f)) {
        Ok(r) => Ok(r),
        Err(_) => {
            let (msg, loc) = LAST_PANIC.with(|p| p.borrow_mut().take()).unwrap_or(("panic".into(), String::new()));
            Err(PanicInfo { msg, loc })
        }
    }
}

/// Harness-side classification of `shapefile::Error`.
#[derive(Clone, Debug, PartialEq, Eq, Hash, Serialize, Deserialize)]
pub enum RErr {
    Io(String),
    InvalidFileCode,
    InvalidShapeType(i32),
    InvalidPatchType,
    Mismatch { requested: i32, actual: i32 },
    InvalidRecordSize,
    Dbase(String),
    MissingDbf,
    MissingIndex,
}

pub fn classify(e: &shapefile::Error) -> RErr {
    use shapefile::Error as E;
    match e {
        E::IoError(e) => RErr::Io(format!("{:?}", e.kind())),
        E::InvalidFileCode(_) => RErr::InvalidFileCode,
        E::InvalidShapeType(c) => RErr::InvalidShapeType(*c),
        E::InvalidPatchType(_) => RErr::InvalidPatchType,
        E::MismatchShapeType { requested, actual } => RErr::Mismatch { requested: *requested as i32, actual: *actual as i32 },
        E::InvalidShapeRecordSize => RErr::InvalidRecordSize,
        E::DbaseError(e) => RErr::Dbase(format!("{}", e).chars().take(80).collect()),
        E::MissingDbf => RErr::MissingDbf,
        E::MissingIndexFile => RErr::MissingIndex,
    }
}

pub type Item = Result<Geom, RErr>;

pub fn item_short(i: &Item) -> String {
    match i {
        Ok(g) => g.short(),
        Err(e) => format!("Err({:?})", e),
    }
}

/// Anything that can be turned into the generic enum can be captured.
pub trait ToGeom {
    fn to_geom(self) -> Geom;
}
impl<T: Into<shapefile::Shape>> ToGeom for T {
    fn to_geom(self) -> Geom {
        capture(&self.into())
    }
}

/// Drain an iterator of reader items through a counter capped at `cap` items.
/// Returns the items and whether the cap was exceeded (the deterministic hang detector).
pub fn drain<S: ToGeom, I: Iterator<Item = Result<S, shapefile::Error>>>(it: I, cap: usize) -> (Vec<Item>, bool) {
    let mut out = Vec::new();
    let mut it = it;
    loop {
        // what `collect()` does between items: ask the iterator how much is left
        let _ = it.size_hint();
        let Some(x) = it.next() else { break };
        if out.len() >= cap {
            return (out, true);
        }
        out.push(match x {
            Ok(s) => Ok(s.to_geom()),
            Err(e) => Err(classify(&e)),
        });
    }
    (out, false)
}

/// Item cap for iterators over files of the given sizes (DESIGN 2.3).
pub fn item_cap(shp_len: usize, shx_len: usize) -> usize {
    (shp_len + shx_len) / 4 + 16
}
