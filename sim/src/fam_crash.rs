//! Family CRASH (C11): run a workload once, then rebuild from the event log every state the two
//! files could be in after a crash - any prefix of the .shp operations with, independently, any
//! prefix of the .shx operations, cut at any byte - and hand each to the real reader.

use crate::core::*;
use crate::gen::*;
use crate::geom::*;
use crate::prng::Rng;
use crate::rd::diff_read;
use crate::scn::{Scenario, UnitCtl};
use crate::world::*;
use crate::wrun::*;
use serde::{Deserialize, Serialize};
use shapefile::ShapeReader;
use std::collections::HashSet;
use std::io::{BufReader, Cursor};

#[derive(Clone, Debug, Serialize, Deserialize)]
pub struct CrashScn {
    pub w: WProg,
    #[serde(default)]
    pub wplan: Plan,
    /// number of .shp events fully persisted, and bytes of the next one
    pub n_shp: usize,
    pub cut_shp: usize,
    pub n_shx: usize,
    pub cut_shx: usize,
    /// read through a BufReader of this capacity (0 = plain cursor)
    pub rbuf: u32,
}

pub fn generate_workload(r: &mut Rng) -> (WProg, Plan) {
    let ty = *r.pick(&TYPES);
    let mut k = ShapeKnobs::draw(r);
    k.max_parts = k.max_parts.min(3);
    k.max_pts = k.max_pts.min(5);
    let n = r.usize(1, 5);
    let mut shapes: Vec<ShapeSpec> = (0..n).map(|_| gen_spec(r, ty, &k)).collect();
    for (i, s) in shapes.iter_mut().enumerate() {
        tag_spec(s, i);
    }
    let mut calls = Vec::new();
    let nfin = r.usize(0, 3);
    let mut fin_at: Vec<usize> = (0..nfin).map(|_| r.usize(0, n)).collect();
    fin_at.sort();
    // a finalize before the first write (position 0) is part of the workload space too
    for f in &fin_at {
        if *f == 0 {
            calls.push(WCall::Fin);
        }
    }
    for i in 0..n {
        calls.push(WCall::W(i));
        for f in &fin_at {
            if *f == i + 1 {
                calls.push(WCall::Fin);
            }
        }
    }
    let ending = if r.chance(1, 3) { Ending::FinDrop } else { Ending::Drop };
    let stack = match r.below(3) {
        0 => StackCfg::Direct,
        1 => StackCfg::Buf(*r.pick(&[3u32, 8, 16, 50, 100])),
        _ => StackCfg::Buf(8192),
    };
    let mut plan = Plan::default();
    if r.chance(1, 4) {
        plan.dev[SHP] = gen_devcfg(r, false);
        plan.dev[SHX] = gen_devcfg(r, false);
    }
    (WProg { shapes, others: vec![], calls, ending, with_shx: true, stack }, plan)
}

/// One persisted state of one device.
struct Img {
    n_full: usize,
    cut: usize,
    data: Vec<u8>,
    hash: u64,
    /// region class of the cut, for reach counters
    region: &'static str,
}

fn images(world: &World, dev: usize, marks: &[Mark]) -> Vec<Img> {
    images_where(world, dev, marks, &|_| true)
}

/// Like `images`, but only the states whose region satisfies `keep` are materialised.
fn images_where(world: &World, dev: usize, marks: &[Mark], keep: &dyn Fn(&str) -> bool) -> Vec<Img> {
    let evs = world.events_of(dev);
    let mut out = Vec::new();
    let mut cur: Vec<u8> = Vec::new();
    let region_of = |ei: usize, pos: u64, partial: bool| -> &'static str {
        let m = marks.iter().find(|m| ei >= m.first_ev && ei < m.end_ev);
        let call = m.map(|m| m.call.as_str()).unwrap_or("");
        if call.starts_with("write") {
            if pos < 100 {
                "placeholder-header"
            } else if partial {
                "inside-record-write"
            } else {
                "between-record-writes"
            }
        } else if call == "finalize" || call == "drop" {
            if pos < 24 {
                "header-rewrite:before-length"
            } else if pos < 28 {
                "header-rewrite:length-field"
            } else if pos < 100 {
                "header-rewrite:after-length"
            } else {
                "finalize:tail"
            }
        } else {
            "other"
        }
    };
    if keep("nothing") {
        out.push(Img { n_full: 0, cut: 0, data: vec![], hash: crate::prng::fnv(&[]), region: "nothing" });
    }
    for (k, &ei) in evs.iter().enumerate() {
        let e = &world.log[ei];
        if e.kind == OpKind::Write && e.moved > 0 {
            let pos = e.pos as usize;
            for c in 1..e.moved as usize {
                if !keep(region_of(ei, e.pos + c as u64, true)) {
                    continue;
                }
                let mut d = cur.clone();
                if d.len() < pos + c {
                    d.resize(pos + c, 0);
                }
                d[pos..pos + c].copy_from_slice(&world.blob[e.blob_off..e.blob_off + c]);
                let h = crate::prng::fnv(&d);
                out.push(Img { n_full: k, cut: c, data: d, hash: h, region: region_of(ei, e.pos + c as u64, true) });
            }
            let n = e.moved as usize;
            if cur.len() < pos + n {
                cur.resize(pos + n, 0);
            }
            cur[pos..pos + n].copy_from_slice(&world.blob[e.blob_off..e.blob_off + n]);
        }
        let h = crate::prng::fnv(&cur);
        let region = match e.kind {
            OpKind::Seek => "after-seek",
            OpKind::Flush => "after-flush",
            _ => region_of(ei, e.pos + e.moved as u64, false),
        };
        if keep(region) {
            out.push(Img { n_full: k + 1, cut: 0, data: cur.clone(), hash: h, region });
        }
    }
    out
}

enum RSrc<'a> {
    Plain(Cursor<&'a [u8]>),
    Buf(BufReader<Cursor<&'a [u8]>>),
}
impl std::io::Read for RSrc<'_> {
    fn read(&mut self, b: &mut [u8]) -> std::io::Result<usize> {
        match self {
            RSrc::Plain(c) => c.read(b),
            RSrc::Buf(c) => c.read(b),
        }
    }
}
impl std::io::Seek for RSrc<'_> {
    fn seek(&mut self, p: std::io::SeekFrom) -> std::io::Result<u64> {
        match self {
            RSrc::Plain(c) => c.seek(p),
            RSrc::Buf(c) => c.seek(p),
        }
    }
}
fn src(d: &[u8], rbuf: u32) -> RSrc<'_> {
    if rbuf == 0 {
        RSrc::Plain(Cursor::new(d))
    } else {
        RSrc::Buf(BufReader::with_capacity(rbuf as usize, Cursor::new(d)))
    }
}

/// Drain until (and including) the first Err: what follows the first error is C07's business
/// (termination), not C11's. The cap only bounds a stream of Ok items, which the prefix oracle
/// flags anyway as soon as it exceeds the number of shapes written.
fn drain_to_first_err<S: ToGeom, I: Iterator<Item = Result<S, shapefile::Error>>>(it: I, cap: usize) -> (Vec<Item>, bool) {
    let mut out = Vec::new();
    let mut it = it;
    loop {
        // what `collect()` does between items: ask the iterator how much is left
        let _ = it.size_hint();
        let Some(x) = it.next() else { break };
        if out.len() >= cap {
            return (out, true);
        }
        match x {
            Ok(s) => out.push(Ok(s.to_geom())),
            Err(e) => {
                out.push(Err(classify(&e)));
                let _ = it.size_hint();
                break;
            }
        }
    }
    (out, false)
}

/// Read one image without index. Returns the items (capped).
fn read_no_index(shp: &[u8], rbuf: u32) -> Result<Option<(Vec<Item>, bool)>, PanicInfo> {
    guarded(|| {
        let mut r = match ShapeReader::new(src(shp, rbuf)) {
            Ok(r) => r,
            Err(_) => return None,
        };
        Some(drain_to_first_err(r.iter_shapes(), item_cap(shp.len(), 0)))
    })
}

/// Drain completely (up to the cap), errors included: with an index the iterator goes on to the
/// next entry after an error, and a caller that skips errors sees every Ok item.
fn drain_all<S: ToGeom, I: Iterator<Item = Result<S, shapefile::Error>>>(it: I, cap: usize) -> Vec<Item> {
    let mut out = Vec::new();
    let mut it = it;
    loop {
        let _ = it.size_hint();
        let Some(x) = it.next() else { break };
        if out.len() >= cap {
            break;
        }
        out.push(x.map(|s| s.to_geom()).map_err(|e| classify(&e)));
    }
    out
}

/// The shapes a caller that skips errors gets from one iteration: they too must be shapes
/// 0..j in order (an Ok item after an Err must not make the sequence skip or repeat a shape).
fn ok_items_violation(items: &[Item], expected: &[Geom]) -> Option<String> {
    let never = |_: usize, _: usize| false;
    for (i, g) in items.iter().filter_map(|x| x.as_ref().ok()).enumerate() {
        if i >= expected.len() {
            return Some(format!("Ok item {} is a shape but only {} were written: {}", i, expected.len(), g.short()));
        }
        if let Some(d) = diff_read(&expected[i], g, i, &never) {
            return Some(format!("Ok item {} (errors skipped) is not shape {}: {}; items: {:?}", i, i, d, items.iter().map(item_short).collect::<Vec<_>>()));
        }
    }
    None
}

/// Read one image pair with index: sequential items, random access at every entry, then a
/// second iteration on the same reader (the last random accesses may have failed), drained.
#[allow(clippy::type_complexity)]
fn read_with_index(shp: &[u8], shx: &[u8], rbuf: u32) -> Result<Option<(Vec<Item>, bool, Vec<Option<Item>>, Vec<Item>)>, PanicInfo> {
    guarded(|| {
        let mut r = match ShapeReader::with_shx(src(shp, rbuf), src(shx, rbuf)) {
            Ok(r) => r,
            Err(_) => return None,
        };
        let (items, capped) = drain_to_first_err(r.iter_shapes(), item_cap(shp.len(), shx.len()));
        let n = r.shape_count().unwrap_or(0).min(64);
        let mut nth = Vec::with_capacity(n);
        for i in 0..n {
            nth.push(r.read_nth_shape(i).map(|x| x.map(|s| capture(&s)).map_err(|e| classify(&e))));
        }
        let again = drain_all(r.iter_shapes(), item_cap(shp.len(), shx.len()));
        Some((items, capped, nth, again))
    })
}

/// The prefix oracle: Ok items before the first Err equal shapes 0..j, in order.
fn prefix_violation(items: &[Item], expected: &[Geom]) -> Option<String> {
    let never = |_: usize, _: usize| false;
    for (i, it) in items.iter().enumerate() {
        match it {
            Err(_) => return None,
            Ok(g) => {
                if i >= expected.len() {
                    return Some(format!("item {} is a shape but only {} were written: {}", i, expected.len(), g.short()));
                }
                if let Some(d) = diff_read(&expected[i], g, i, &never) {
                    return Some(format!("item {} is not shape {}: {}", i, i, d));
                }
            }
        }
    }
    None
}

fn ok_prefix_len(items: &[Item]) -> usize {
    items.iter().take_while(|i| i.is_ok()).count()
}

struct Prepared {
    world: WorldRef,
    run: WRun,
    expected: Vec<Geom>,
    /// (index of the shp Flush event among shp events, number of shapes written before that finalize)
    durable: Vec<(usize, usize)>,
}

fn prepare(w: &WProg, plan: &Plan) -> Option<Prepared> {
    let world = World::new(plan.clone());
    let run = run_writer(&world, w);
    if run.build_panic.is_some() || run.marks.iter().any(|m| !m.res.is_ok()) {
        return None;
    }
    let expected: Vec<Geom> = run.written.iter().map(|i| run.geoms[*i].normalised_for_read()).collect();
    // durability points: the Ok Flush event on the shp device inside each finalize (or drop)
    let mut durable = Vec::new();
    {
        let wb = world.borrow();
        let shp_evs = wb.events_of(SHP);
        let mut written = 0usize;
        for m in &run.marks {
            if m.call.starts_with("write(") {
                written += 1;
            }
            if m.call == "finalize" || m.call == "drop" {
                for (k, &ei) in shp_evs.iter().enumerate() {
                    if ei >= m.first_ev && ei < m.end_ev && wb.log[ei].kind == OpKind::Flush && wb.log[ei].err.is_none() {
                        durable.push((k, written));
                    }
                }
            }
        }
    }
    Some(Prepared { world, run, expected, durable })
}

/// Judge one image pair. `do_noindex`: also run the index-less route (depends on shp only).
#[allow(clippy::too_many_arguments)]
fn judge(ctx: &mut Ctx, p: &Prepared, shp: &[u8], n_shp: usize, shx: &[u8], rbuf: u32, do_noindex: bool, do_index: bool) {
    if do_noindex {
        match read_no_index(shp, rbuf) {
            Err(pi) => ctx.fail("C11", "panic", pi.site(), format!("index-less read of a crash image: {}", pi.text())),
            Ok(None) => {
                // opening failed: acceptable, unless a finalize had completed on this prefix
                let need = p.durable.iter().filter(|(k, _)| *k < n_shp).map(|(_, w)| *w).max().unwrap_or(0);
                if need > 0 {
                    ctx.fail("C11", "durability", "open", format!("{} shapes were written before a finalize that completed on the .shp, but the image cannot be opened", need));
                }
            }
            Ok(Some((items, capped))) => {
                let _ = capped;
                ctx.stats.steps += items.len() as u64 + 1; // logical step = one reader call on a crash image
                if let Some(v) = prefix_violation(&items, &p.expected) {
                    ctx.fail("C11", "prefix", "noshx", format!("index-less read: {}", v));
                }
                let need = p.durable.iter().filter(|(k, _)| *k < n_shp).map(|(_, w)| *w).max().unwrap_or(0);
                if ok_prefix_len(&items) < need {
                    ctx.fail("C11", "durability", "noshx", format!("{} shapes were written before a finalize that completed on the .shp, only {} are readable: {:?}", need, ok_prefix_len(&items), items.iter().map(item_short).collect::<Vec<_>>()));
                }
                if need > 0 {
                    ctx.stats.reach("durability-judged");
                }
            }
        }
    }
    // one image in 16 (by content) also lands in files and is read by path, without index file
    if do_noindex && crate::prng::fnv(shp) % 16 == 0 {
        let dir = crate::scratch_dir();
        let path = dir.join(format!("crash-{}.shp", crate::prng::fnv(shp)));
        if std::fs::write(&path, shp).is_ok() {
            let _ = std::fs::remove_file(path.with_extension("shx"));
            let r = guarded(|| match ShapeReader::from_path(&path) {
                Ok(mut r) => Some(drain_to_first_err(r.iter_shapes(), item_cap(shp.len(), 0))),
                Err(_) => None,
            });
            let need = p.durable.iter().filter(|(k, _)| *k < n_shp).map(|(_, w)| *w).max().unwrap_or(0);
            match r {
                Err(pi) => ctx.fail("C11", "panic", pi.site(), format!("by-path read of a crash image: {}", pi.text())),
                Ok(None) => {
                    if need > 0 {
                        ctx.fail("C11", "durability", "path:open", format!("{} shapes were written before a finalize that completed on the .shp, but the image cannot be opened by path", need));
                    }
                }
                Ok(Some((items, _))) => {
                    if let Some(v) = prefix_violation(&items, &p.expected) {
                        ctx.fail("C11", "prefix", "path:noshx", format!("by-path read: {}", v));
                    }
                    if ok_prefix_len(&items) < need {
                        ctx.fail("C11", "durability", "path:noshx", format!("{} shapes were written before a finalize that completed on the .shp, only {} are readable by path", need, ok_prefix_len(&items)));
                    }
                }
            }
            ctx.stats.reach("crash-image-read-by-path");
            let _ = std::fs::remove_file(&path);
        }
    }
    if do_index {
        match read_with_index(shp, shx, rbuf) {
            Err(pi) => ctx.fail("C11", "panic", pi.site(), format!("indexed read of a crash image pair: {}", pi.text())),
            Ok(None) => ctx.stats.reach("indexed-open-failed"),
            Ok(Some((items, capped, nth, again))) => {
                let _ = capped;
                ctx.stats.steps += (items.len() + nth.len() + again.len()) as u64 + 1;
                if let Some(v) = prefix_violation(&items, &p.expected) {
                    ctx.fail("C11", "prefix", "shx", format!("indexed read: {}", v));
                }
                if let Some(v) = ok_items_violation(&again, &p.expected) {
                    ctx.fail("C11", "prefix", "shx-after-random-access", format!("iteration after random access at every entry: {}", v));
                }
                if again.iter().any(|x| x.is_err()) && again.iter().skip_while(|x| x.is_ok()).any(|x| x.is_ok()) {
                    ctx.stats.reach("ok-item-after-an-error-item");
                }
                let never = |_: usize, _: usize| false;
                for (i, x) in nth.iter().enumerate() {
                    if let Some(Ok(g)) = x {
                        let bad = match p.expected.get(i) {
                            None => Some("no such shape was written".to_string()),
                            Some(e) => diff_read(e, g, i, &never),
                        };
                        if let Some(d) = bad {
                            ctx.fail("C11", "random-access", "shx", format!("read_nth_shape({}) on a crash image returned a wrong shape: {}", i, d));
                        }
                    }
                }
            }
        }
    }
}

pub fn execute(scn: &CrashScn, ctx: &mut Ctx) {
    let Some(p) = prepare(&scn.w, &scn.wplan) else {
        ctx.fail("HARNESS", "invalid-scenario", "workload", "the crash workload does not run cleanly".to_string());
        return;
    };
    let wb = p.world.borrow();
    let shp_evs = wb.events_of(SHP);
    let shx_evs = wb.events_of(SHX);
    if scn.n_shp > shp_evs.len() || scn.n_shx > shx_evs.len() {
        ctx.fail("HARNESS", "invalid-scenario", "cut", "cut beyond the event log".to_string());
        return;
    }
    let shp = crash_image(&wb, &shp_evs, scn.n_shp, scn.cut_shp);
    let shx = crash_image(&wb, &shx_evs, scn.n_shx, scn.cut_shx);
    drop(wb);
    judge(ctx, &p, &shp, scn.n_shp, &shx, scn.rbuf, true, true);
}

/// One unit = one seeded workload, all (or `max_pairs` evenly sampled) image pairs.
pub fn unit(seed: u64, max_pairs: usize, ctx: &mut Ctx, ctl: &mut UnitCtl) {
    let mut r = Rng::new(seed);
    let (w, plan) = generate_workload(&mut r);
    let rbuf = *r.pick(&[0u32, 0, 7, 64]);
    let Some(p) = prepare(&w, &plan) else {
        ctx.fail("HARNESS", "invalid-scenario", "workload", format!("generated crash workload does not run cleanly: {:?}", w.calls));
        ctl.after_case(ctx, || Scenario::Crash(CrashScn { w: w.clone(), wplan: plan.clone(), n_shp: 0, cut_shp: 0, n_shx: 0, cut_shx: 0, rbuf }));
        return;
    };
    let wb = p.world.borrow();
    ctx.stats.steps += wb.log.len() as u64;
    let shp_imgs = images(&wb, SHP, &p.run.marks);
    let shx_imgs = images(&wb, SHX, &p.run.marks);
    drop(wb);
    let mk = |a: &Img, b: &Img| Scenario::Crash(CrashScn { w: w.clone(), wplan: plan.clone(), n_shp: a.n_full, cut_shp: a.cut, n_shx: b.n_full, cut_shx: b.cut, rbuf });
    if ctx.stats.samples.len() < 2 {
        ctx.stats.samples.push(serde_json::json!({"workload_calls": pattern(&w), "type": type_name(w.shapes[0].ty), "shapes": w.shapes.len(), "stack": format!("{:?}", w.stack), "shp_cut_points": shp_imgs.len(), "shx_cut_points": shx_imgs.len(), "example_pair": {"n_shp": shp_imgs[shp_imgs.len() / 2].n_full, "cut_shp": shp_imgs[shp_imgs.len() / 2].cut, "n_shx": shx_imgs[shx_imgs.len() / 3].n_full, "cut_shx": shx_imgs[shx_imgs.len() / 3].cut}}));
    }
    // index-less route: depends on the shp image only - every cut point
    let empty = Img { n_full: 0, cut: 0, data: vec![], hash: 0, region: "nothing" };
    let mut seen_shp: HashSet<u64> = HashSet::new();
    for a in &shp_imgs {
        ctx.stats.reach(&format!("shp-cut:{}", a.region));
        if !ctl.before_case(|| mk(a, &empty)) {
            continue;
        }
        ctx.stats.evaluations += 1;
        // identical images behave identically, but durability depends on n_full: judge all
        seen_shp.insert(a.hash);
        ctx.stats.fault(if a.cut > 0 { "crash:shp-mid-write" } else { "crash:shp-op-boundary" }, 1);
        judge(ctx, &p, &a.data, a.n_full, &[], rbuf, true, false);
        ctl.after_case(ctx, || mk(a, &empty));
    }
    // indexed route: pairs
    let total = shp_imgs.len() * shx_imgs.len();
    let stride = if total > max_pairs { total.div_ceil(max_pairs) } else { 1 };
    // a stride coprime with the inner length so that sampling does not alias with a column
    let mut stride = stride;
    while stride > 1 && gcd(stride, shx_imgs.len()) != 1 {
        stride += 1;
    }
    let mut seen_pair: HashSet<(u64, u64)> = HashSet::new();
    let mut idx = 0usize;
    while idx < total {
        let a = &shp_imgs[idx / shx_imgs.len()];
        let b = &shx_imgs[idx % shx_imgs.len()];
        idx += stride;
        if !ctl.before_case(|| mk(a, b)) {
            continue;
        }
        ctx.stats.evaluations += 1;
        if !seen_pair.insert((a.hash, b.hash)) {
            ctx.stats.reach("pair-duplicate-image-skipped");
            continue;
        }
        ctx.stats.reach(&format!("shx-cut:{}", b.region));
        ctx.stats.fault(if a.cut > 0 || b.cut > 0 { "crash:pair-mid-write" } else { "crash:pair-op-boundaries" }, 1);
        judge(ctx, &p, &a.data, a.n_full, &b.data, rbuf, false, true);
        ctl.after_case(ctx, || mk(a, b));
    }
    if stride == 1 {
        ctx.stats.reach("workload-all-pairs-enumerated");
    } else {
        ctx.stats.reach("workload-pairs-sampled");
    }
    let wl = crate::prng::fnv_str(&serde_json::to_string(&w).unwrap_or_default());
    for (h1, h2) in seen_pair {
        ctx.stats.distinct.insert(h1 ^ h2.rotate_left(17) ^ wl);
    }
}

fn gcd(a: usize, b: usize) -> usize {
    if b == 0 {
        a
    } else {
        gcd(b, a % b)
    }
}

// ---------------------------------------------------------------------------------------------
// By-path crash route: the destination path already holds a longer shapefile; the new writer is
// created with ShapeWriter::from_path, writes, optionally finalizes, and then "crashes"
// (std::mem::forget: buffers never flushed, files never finalized). What is on disk must read
// as an error or as a prefix of the NEW shapes - never as shapes of the old file.

#[derive(Clone, Debug, Serialize, Deserialize)]
pub struct CrashPathScn {
    pub ty: i32,
    /// records of the file that is already at the path (0 = no previous file)
    pub n_old: usize,
    pub n_new: usize,
    /// call finalize() after this many new shapes (None = never)
    pub fin_after: Option<usize>,
    /// points per shape (multi-vertex types), to vary how much gets flushed by the 8 KiB buffers
    pub npts: usize,
}

pub fn execute_path(scn: &CrashPathScn, ctx: &mut Ctx) {
    use crate::on_shape;
    if !TYPES.contains(&scn.ty) || scn.n_new == 0 || scn.n_new > 3000 || scn.n_old > 3000 {
        ctx.fail("HARNESS", "invalid-scenario", "crash-path", "bad parameters".to_string());
        return;
    }
    let mk = |tag: usize| -> ShapeSpec {
        let mut s = if is_point(scn.ty) { grid_spec(scn.ty, 1, 1, tag) } else { grid_spec(scn.ty, 1, scn.npts.clamp(2, 600), tag) };
        tag_spec(&mut s, tag);
        s
    };
    let old: Vec<ShapeSpec> = (0..scn.n_old).map(|i| mk(5000 + i)).collect();
    let new: Vec<ShapeSpec> = (0..scn.n_new).map(mk).collect();
    let (Ok(old_shapes), Ok(new_shapes)) = (build_all(&old), build_all(&new)) else {
        ctx.fail("HARNESS", "build", "ctor", "cannot build shapes".to_string());
        return;
    };
    let expected: Vec<Geom> = new_shapes.iter().map(|s| capture(s).normalised_for_read()).collect();
    let dir = crate::scratch_dir();
    let base = dir.join(format!("crash-{}-{}-{}-{:?}-{}", scn.ty, scn.n_old, scn.n_new, scn.fin_after, scn.npts));
    let shp_path = base.with_extension("shp");
    let shx_path = base.with_extension("shx");
    let _ = std::fs::remove_file(&shp_path);
    let _ = std::fs::remove_file(&shx_path);
    let r = guarded(|| -> Result<(), shapefile::Error> {
        if !old_shapes.is_empty() {
            let mut w = shapefile::ShapeWriter::from_path(&shp_path)?;
            for s in &old_shapes {
                on_shape!(s, c => w.write_shape(c)?, ());
            }
        }
        let mut w = shapefile::ShapeWriter::from_path(&shp_path)?;
        for (i, s) in new_shapes.iter().enumerate() {
            on_shape!(s, c => w.write_shape(c)?, ());
            if scn.fin_after == Some(i + 1) {
                w.finalize()?;
            }
        }
        // the crash: nothing more reaches the files
        std::mem::forget(w);
        Ok(())
    });
    match r {
        Ok(Ok(())) => {}
        Ok(Err(e)) => {
            ctx.fail("C11", "path-write", "from_path", format!("writing by path failed: {:?}", classify(&e)));
            return;
        }
        Err(p) => {
            ctx.fail("C11", "panic", p.site(), p.text());
            return;
        }
    }
    ctx.stats.fault("crash:by-path-buffers-lost", 1);
    let shp = std::fs::read(&shp_path).unwrap_or_default();
    let shx = std::fs::read(&shx_path).unwrap_or_default();
    let _ = std::fs::remove_file(&shp_path);
    let _ = std::fs::remove_file(&shx_path);
    let durable = scn.fin_after.filter(|k| *k <= scn.n_new).unwrap_or(0);
    let what = format!("by path over a previous file of {} records: {} new shapes, finalize after {:?}, then crash ({} + {} bytes on disk)", scn.n_old, scn.n_new, scn.fin_after, shp.len(), shx.len());
    match read_no_index(&shp, 0) {
        Err(pi) => ctx.fail("C11", "panic", pi.site(), format!("{}: {}", what, pi.text())),
        Ok(None) => {
            if durable > 0 {
                ctx.fail("C11", "durability", "path", format!("{}: the .shp cannot be opened although a finalize completed", what));
            }
        }
        Ok(Some((items, _))) => {
            if let Some(v) = prefix_violation(&items, &expected) {
                ctx.fail("C11", "prefix", "path:noshx", format!("{}: {}", what, v));
            }
            if ok_prefix_len(&items) < durable {
                ctx.fail("C11", "durability", "path", format!("{}: only {} of the {} shapes written before the completed finalize are readable", what, ok_prefix_len(&items), durable));
            }
        }
    }
    match read_with_index(&shp, &shx, 0) {
        Err(pi) => ctx.fail("C11", "panic", pi.site(), format!("{}: {}", what, pi.text())),
        Ok(None) => ctx.stats.reach("path-indexed-open-failed"),
        Ok(Some((items, _, nth, again))) => {
            if let Some(v) = prefix_violation(&items, &expected) {
                ctx.fail("C11", "prefix", "path:shx", format!("{}: {}", what, v));
            }
            if let Some(v) = ok_items_violation(&again, &expected) {
                ctx.fail("C11", "prefix", "path:shx-after-random-access", format!("{}: iteration after random access at every entry: {}", what, v));
            }
            let never = |_: usize, _: usize| false;
            for (i, x) in nth.iter().enumerate() {
                if let Some(Ok(g)) = x {
                    if expected.get(i).map(|e| diff_read(e, g, i, &never).is_some()).unwrap_or(true) {
                        ctx.fail("C11", "random-access", "path:shx", format!("{}: read_nth_shape({}) returned a shape that was not written there", what, i));
                        break;
                    }
                }
            }
        }
    }
    ctx.stats.distinct.insert(crate::prng::fnv_str(&format!("path|{}|{}|{}|{:?}|{}", scn.ty, scn.n_old, scn.n_new, scn.fin_after, scn.npts)));
}

/// Deterministic by-path crash scenarios (real file system, fault-free except for the crash).
pub fn path_unit(unit: u64, ctx: &mut Ctx, ctl: &mut UnitCtl) {
    let ty = [1, 3, 15, 28][(unit % 4) as usize];
    let mut scns = Vec::new();
    for (n_old, n_new, fin_after, npts) in [(40usize, 15usize, None, 2usize), (40, 10, Some(5), 2), (0, 10, Some(4), 2), (60, 3, Some(3), 2), (30, 400, Some(200), 40), (1000, 600, None, 30), (8, 700, Some(1), 50)] {
        scns.push(CrashPathScn { ty, n_old, n_new, fin_after, npts });
    }
    for scn in scns {
        if !ctl.before_case(|| Scenario::CrashPath(scn.clone())) {
            continue;
        }
        ctx.stats.evaluations += 1;
        ctx.stats.reach("by-path-crash");
        execute_path(&scn, ctx);
        ctl.after_case(ctx, || Scenario::CrashPath(scn.clone()));
    }
}


/// Torn header rewrites on files large enough for the length field to change in more than its
/// last byte: many small records, crash states only inside the header rewrites of finalize/drop.
pub fn tear_unit(seed: u64, ctx: &mut Ctx, ctl: &mut UnitCtl) {
    let mut r = Rng::new(seed);
    let ty = *r.pick(&[11, 11, 13, 15, 18, 31, 21, 23, 28, 1, 8]);
    let n = r.usize(20, 420);
    let shapes: Vec<ShapeSpec> = (0..n)
        .map(|i| {
            let mut s = if is_point(ty) { grid_spec(ty, 1, 1, i) } else { grid_spec(ty, 1, if is_polyline(ty) { 2 } else { r.usize(1, 2) }, i) };
            tag_spec(&mut s, i);
            s
        })
        .collect();
    let mut calls: Vec<WCall> = Vec::new();
    let mid = if r.chance(1, 2) { Some(r.usize(1, n)) } else { None };
    for i in 0..n {
        calls.push(WCall::W(i));
        if mid == Some(i + 1) {
            calls.push(WCall::Fin);
        }
    }
    let w = WProg { shapes, others: vec![], calls, ending: Ending::Drop, with_shx: true, stack: if r.chance(1, 2) { StackCfg::Direct } else { StackCfg::Buf(8192) } };
    let plan = Plan::default();
    let Some(p) = prepare(&w, &plan) else {
        ctx.fail("HARNESS", "invalid-scenario", "workload", "tear workload does not run cleanly".to_string());
        ctl.after_case(ctx, || Scenario::Crash(CrashScn { w: w.clone(), wplan: plan.clone(), n_shp: 0, cut_shp: 0, n_shx: 0, cut_shx: 0, rbuf: 0 }));
        return;
    };
    let wb = p.world.borrow();
    ctx.stats.steps += wb.log.len() as u64;
    let imgs = images_where(&wb, SHP, &p.run.marks, &|region| region.starts_with("header-rewrite") || region == "after-seek" || region == "after-flush");
    let shx_full = wb.data(SHX).to_vec();
    let n_shx = wb.events_of(SHX).len();
    drop(wb);
    let mk = |a: &Img, with_shx: bool| Scenario::Crash(CrashScn { w: w.clone(), wplan: plan.clone(), n_shp: a.n_full, cut_shp: a.cut, n_shx: if with_shx { n_shx } else { 0 }, cut_shx: 0, rbuf: 0 });
    for a in &imgs {
        if !ctl.before_case(|| mk(a, true)) {
            continue;
        }
        ctx.stats.evaluations += 1;
        ctx.stats.reach(&format!("tear:{}", a.region));
        ctx.stats.fault(if a.cut > 0 { "crash:header-rewrite-mid-write" } else { "crash:header-rewrite-op-boundary" }, 1);
        judge(ctx, &p, &a.data, a.n_full, &shx_full, 0, true, true);
        ctx.stats.distinct.insert(a.hash ^ seed);
        ctl.after_case(ctx, || mk(a, true));
    }
}


/// Torn rewrites of the header's range doubles: the first shape lies at huge (or infinite)
/// coordinates, the second near +-1.5, with a finalize after each, so that every byte cut inside a
/// rewritten 8-byte range mixes the bytes of two very different doubles (some mixtures are NaN, some
/// infinite, some subnormal). unit -> (type, huge value).
pub fn range_tear_unit(unit: u64, ctx: &mut Ctx, ctl: &mut UnitCtl) {
    let ty = [1, 11, 23, 8, 15][(unit % 5) as usize];
    let huge = [1e305f64, f64::INFINITY, -1e305, f64::NEG_INFINITY, f64::MAX, -f64::MAX][((unit / 5) % 6) as usize];
    let small = [1.99f64, -1.5, 1.0, 1.25][((unit / 30) % 4) as usize];
    let npts = if is_point(ty) { 1 } else if is_polygon(ty) { 4 } else { 2 };
    let mk_shape = |v: f64, salt: f64| -> ShapeSpec {
        if is_polygon(ty) {
            // a closed ring around (v, v): finite values only make a ring
            let b = if v.is_finite() { v } else { f64::MAX * v.signum() };
            let pts = vec![[b, b], [b, b + salt], [b + salt, b], [b, b]].into_iter().map(|q| [q[0].to_bits(), q[1].to_bits(), v.to_bits(), v.to_bits()]).collect();
            return ShapeSpec { ty, parts: vec![Part { kind: 0, pts }], ctor: 0 };
        }
        let pts = (0..npts).map(|j| [v.to_bits(), (v + salt * j as f64).to_bits(), if has_z(ty) { v.to_bits() } else { 0 }, if has_m(ty) { v.to_bits() } else { 0 }]).collect();
        ShapeSpec { ty, parts: vec![Part { kind: -1, pts }], ctor: 0 }
    };
    let w = WProg { shapes: vec![mk_shape(huge, 0.0), mk_shape(small, 0.25)], others: vec![], calls: vec![WCall::W(0), WCall::Fin, WCall::W(1), WCall::Fin], ending: Ending::Drop, with_shx: true, stack: StackCfg::Direct };
    let plan = Plan::default();
    let Some(p) = prepare(&w, &plan) else {
        // polygons at the largest finite values may be refused by the constructors: nothing to tear
        ctx.stats.reach("range-tear-workload-not-runnable");
        return;
    };
    let wb = p.world.borrow();
    ctx.stats.steps += wb.log.len() as u64;
    let imgs = images_where(&wb, SHP, &p.run.marks, &|region| region.starts_with("header-rewrite"));
    let shx_full = wb.data(SHX).to_vec();
    let n_shx = wb.events_of(SHX).len();
    drop(wb);
    let mk = |a: &Img| Scenario::Crash(CrashScn { w: w.clone(), wplan: plan.clone(), n_shp: a.n_full, cut_shp: a.cut, n_shx, cut_shx: 0, rbuf: 0 });
    for a in &imgs {
        if !ctl.before_case(|| mk(a)) {
            continue;
        }
        ctx.stats.evaluations += 1;
        ctx.stats.reach("range-tear");
        ctx.stats.fault(if a.cut > 0 { "crash:header-rewrite-mid-write" } else { "crash:header-rewrite-op-boundary" }, 1);
        judge(ctx, &p, &a.data, a.n_full, &shx_full, 0, true, true);
        ctx.stats.distinct.insert(a.hash ^ unit);
        ctl.after_case(ctx, || mk(a));
    }
}

// ---------------------------------------------------------------------------------------------
// A crash inside one very large record (tens of MiB: a writer may treat such records specially)
// while the index is complete. The workload is procedural so that the scenario stays small.

#[derive(Clone, Debug, Serialize, Deserialize)]
pub struct CrashBigScn {
    /// points of the single part of the large polyline (the second of two shapes, then finalize)
    pub npts: u32,
    /// the .shp keeps its events up to the one holding this fraction (per mille) of the large record ...
    pub at_permille: u32,
    /// ... and this many bytes of that event
    pub cut: u32,
    pub rbuf: u32,
}

pub fn execute_big(scn: &CrashBigScn, ctx: &mut Ctx) {
    if scn.npts < 2 || scn.npts > 6_000_000 || scn.at_permille > 1000 {
        ctx.fail("HARNESS", "invalid-scenario", "crash-big", "bad parameters".to_string());
        return;
    }
    let w = WProg { shapes: vec![grid_spec(3, 1, 2, 3), grid_spec(3, 1, scn.npts as usize, 11)], others: vec![], calls: vec![WCall::W(0), WCall::W(1), WCall::Fin], ending: Ending::Drop, with_shx: true, stack: StackCfg::Buf(1 << 16) };
    let Some(p) = prepare(&w, &Plan::default()) else {
        ctx.fail("HARNESS", "invalid-scenario", "workload", "the large workload does not run cleanly".to_string());
        return;
    };
    let wb = p.world.borrow();
    let shp_evs = wb.events_of(SHP);
    let shx_evs = wb.events_of(SHX);
    // the large record starts behind the header and the first record
    let rec1_start = 100 + 8 + 44 + 4 + 2 * 16;
    let rec1_len = 8 + 44 + 4 + 16 * scn.npts as u64;
    let target = rec1_start as u64 + rec1_len * scn.at_permille as u64 / 1000;
    // the first write event that reaches the target position in the golden run
    let Some(k) = shp_evs.iter().position(|&i| wb.log[i].kind == OpKind::Write && wb.log[i].pos + wb.log[i].moved as u64 > target && wb.log[i].pos >= 100) else {
        ctx.fail("HARNESS", "invalid-scenario", "crash-big", "no write event at that position".to_string());
        return;
    };
    let shp = crash_image(&wb, &shp_evs, k, scn.cut as usize);
    let shx = crash_image(&wb, &shx_evs, shx_evs.len(), 0);
    drop(wb);
    ctx.stats.reach("crash-inside-a-large-record");
    judge(ctx, &p, &shp, k, &shx, scn.rbuf, true, true);
    ctx.stats.distinct.insert(crate::prng::fnv_str(&format!("big|{}|{}|{}", scn.npts, scn.at_permille, scn.cut)));
}

/// unit 0: a 64 MiB record (4.2 M points), crashed near its start, in its middle and near its end.
pub fn big_unit(unit: u64, ctx: &mut Ctx, ctl: &mut UnitCtl) {
    let cases: Vec<(u32, u32, u32)> = if unit == 0 { vec![(4_195_304, 1, 3), (4_195_304, 500, 40_000), (4_195_304, 999, 11)] } else { vec![(4_195_304, 250, 1), (2_100_000, 500, 3), (4_200_000, 750, 65_535), (5_000_000, 10, 8)] };
    for (npts, at_permille, cut) in cases {
        let scn = CrashBigScn { npts, at_permille, cut, rbuf: 0 };
        if !ctl.before_case(|| Scenario::CrashBig(scn.clone())) {
            continue;
        }
        ctx.stats.evaluations += 1;
        execute_big(&scn, ctx);
        ctl.after_case(ctx, || Scenario::CrashBig(scn.clone()));
    }
}
