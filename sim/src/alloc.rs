//! Counting allocator monitor (C17). Requests are always passed to `System`: a request is judged,
//! never refused. Accounting only runs between `begin()` and `end()` on the (single) worker thread.

use std::alloc::{GlobalAlloc, Layout, System};
use std::sync::atomic::{AtomicBool, AtomicUsize, Ordering::Relaxed};

pub struct Counting;

static ON: AtomicBool = AtomicBool::new(false);
static SUSPENDED: AtomicBool = AtomicBool::new(false);
static LIVE: AtomicUsize = AtomicUsize::new(0);
static PEAK: AtomicUsize = AtomicUsize::new(0);
static LARGEST: AtomicUsize = AtomicUsize::new(0);

#[inline]
fn active() -> bool {
    ON.load(Relaxed) && !SUSPENDED.load(Relaxed)
}

#[inline]
fn on_alloc(size: usize) {
    if active() {
        let live = LIVE.fetch_add(size, Relaxed) + size;
        if live > PEAK.load(Relaxed) {
            PEAK.store(live, Relaxed);
        }
        if size > LARGEST.load(Relaxed) {
            LARGEST.store(size, Relaxed);
        }
    }
}

#[inline]
fn on_free(size: usize) {
    if active() {
        // frees of memory allocated before begin() could underflow: saturate
        let cur = LIVE.load(Relaxed);
        LIVE.store(cur.saturating_sub(size), Relaxed);
    }
}

unsafe impl GlobalAlloc for Counting {
    unsafe fn alloc(&self, layout: Layout) -> *mut u8 {
        on_alloc(layout.size());
        System.alloc(layout)
    }
    unsafe fn dealloc(&self, ptr: *mut u8, layout: Layout) {
        on_free(layout.size());
        System.dealloc(ptr, layout)
    }
    unsafe fn alloc_zeroed(&self, layout: Layout) -> *mut u8 {
        on_alloc(layout.size());
        System.alloc_zeroed(layout)
    }
    unsafe fn realloc(&self, ptr: *mut u8, layout: Layout, new_size: usize) -> *mut u8 {
        // a growing realloc may move: old and new block are live at once
        on_alloc(new_size);
        let p = System.realloc(ptr, layout, new_size);
        on_free(layout.size());
        p
    }
}

/// Start measuring: live bytes are counted relative to this instant.
pub fn begin() {
    LIVE.store(0, Relaxed);
    PEAK.store(0, Relaxed);
    LARGEST.store(0, Relaxed);
    SUSPENDED.store(false, Relaxed);
    ON.store(true, Relaxed);
}

/// Stop measuring; returns (peak live bytes above the level at `begin`, largest single request).
pub fn end() -> (usize, usize) {
    ON.store(false, Relaxed);
    (PEAK.load(Relaxed), LARGEST.load(Relaxed))
}

/// Suspend accounting while the harness's own panic hook runs.
pub fn suspend(s: bool) {
    SUSPENDED.store(s, Relaxed);
}
