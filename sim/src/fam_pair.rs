//! Family PAIR (C08, and C10's last clause): histories of write_shape_and_record calls through
//! the complete Writer on three simulated devices, some of which fail; entry counts by independent
//! physical scan after every call and at the end; the complete Reader must return the pairs.

use crate::core::*;
use crate::gen::*;
use crate::geom::*;
use crate::on_shape;
use crate::rd::diff_read;
use crate::refcodec::*;
use crate::scn::{Scenario, UnitCtl};
use crate::world::*;
use crate::wrun::build_all;
use serde::{Deserialize, Serialize};
use shapefile::dbase;
use shapefile::{Reader, ShapeReader, ShapeWriter, Writer};

#[derive(Clone, Copy, Debug, PartialEq, Eq, Hash, Serialize, Deserialize)]
pub enum PCall {
    /// a good pair: shapes[i] with a complete row
    Good(u8),
    /// a shape of another type (others[0]) with a complete row: must be rejected, nothing written
    WrongShape,
    /// shapes[i] with a row that lacks the `name` field
    MissingField(u8),
    /// shapes[i] with a row whose `idx` holds a Character value
    WrongFieldType(u8),
}

#[derive(Clone, Debug, Serialize, Deserialize)]
pub struct PairScn {
    pub shapes: Vec<ShapeSpec>,
    pub other: ShapeSpec,
    pub calls: Vec<PCall>,
    /// end with write_shapes_and_records over these shapes (all good) instead of a plain drop
    #[serde(default)]
    pub ending_bulk: Vec<u8>,
    pub stack: StackCfg,
    /// also through Writer::from_path / Reader::from_path / shapefile::read
    #[serde(default)]
    pub path: bool,
    /// the ShapeWriter handed to Writer::new has already written shapes[0] on its own (C10 only:
    /// the history, made of good pairs and rejected shapes, is compared with itself without the
    /// rejected calls)
    #[serde(default)]
    pub pre: bool,
}

/// The stack of the .dbf destination: `dbase::TableWriter` never calls `flush()` on its destination
/// (not in finalize, not when dropped), so a write-back layer that commits on flush only would never
/// see a row. That is the dbase crate's affair, not a pairing question: the .dbf goes straight to
/// its device whenever the scenario asks for a write-back layer.
fn dbf_stack(s: StackCfg) -> StackCfg {
    if s == StackCfg::WriteBack {
        StackCfg::Direct
    } else {
        s
    }
}

fn table() -> dbase::TableWriterBuilder {
    dbase::TableWriterBuilder::new().add_integer_field(dbase::FieldName::try_from("idx").unwrap()).add_character_field(dbase::FieldName::try_from("name").unwrap(), 10)
}

fn good_row(idx: usize) -> dbase::Record {
    let mut r = dbase::Record::default();
    r.insert("idx".to_string(), dbase::FieldValue::Integer(idx as i32));
    r.insert("name".to_string(), dbase::FieldValue::Character(Some(format!("n{}", idx))));
    r
}

fn row_for(call: &PCall, idx: usize) -> dbase::Record {
    let mut r = good_row(idx);
    match call {
        PCall::MissingField(_) => {
            r.remove("name");
        }
        PCall::WrongFieldType(_) => {
            r.insert("idx".to_string(), dbase::FieldValue::Character(Some("oops".to_string())));
        }
        _ => {}
    }
    r
}

/// Physical scan of the three devices: (records in shp, entries in shx, whole rows in dbf, stray dbf bytes)
fn scan(shp: &[u8], shx: &[u8], dbf: &[u8]) -> (usize, usize, usize, usize) {
    let mut recs = 0;
    let mut o = 100usize;
    while o + 8 <= shp.len() {
        let words = i32::from_be_bytes([shp[o + 4], shp[o + 5], shp[o + 6], shp[o + 7]]);
        if words < 0 {
            break;
        }
        let end = o + 8 + 2 * words as usize;
        if end > shp.len() {
            break;
        }
        recs += 1;
        o = end;
    }
    let entries = shx.len().saturating_sub(100) / 8;
    let (rows, stray) = if dbf.len() < 32 {
        (0, 0)
    } else {
        let header_len = u16::from_le_bytes([dbf[8], dbf[9]]) as usize;
        let row_len = u16::from_le_bytes([dbf[10], dbf[11]]) as usize;
        if row_len == 0 || header_len > dbf.len() {
            (0, dbf.len())
        } else {
            let mut body = dbf.len() - header_len;
            if dbf.last() == Some(&0x1A) && body % row_len == 1 {
                body -= 1;
            }
            (body / row_len, body % row_len)
        }
    };
    (recs, entries, rows, stray)
}

fn first_bad_row(calls: &[PCall]) -> &'static str {
    for c in calls {
        match c {
            PCall::MissingField(_) => return "row-missing-field",
            PCall::WrongFieldType(_) => return "row-wrong-field-type",
            _ => {}
        }
    }
    "no-failing-row"
}

pub fn hist_name(calls: &[PCall]) -> String {
    calls
        .iter()
        .map(|c| match c {
            PCall::Good(_) => "ok",
            PCall::WrongShape => "wrong-shape",
            PCall::MissingField(_) => "missing-field",
            PCall::WrongFieldType(_) => "wrong-field-type",
        })
        .collect::<Vec<_>>()
        .join(";")
}

pub fn execute(scn: &PairScn, ctx: &mut Ctx) {
    let ty = scn.shapes.first().map(|s| s.ty).unwrap_or(0);
    if scn.shapes.is_empty() || scn.shapes.iter().any(|s| s.ty != ty) || scn.other.ty == ty {
        ctx.fail("HARNESS", "invalid-scenario", "pair", "inconsistent shape types".to_string());
        return;
    }
    // a wrong-shape call before the first accepted shape would set the file's type
    let first_good = scn.calls.iter().position(|c| !matches!(c, PCall::WrongShape));
    if let Some(w) = scn.calls.iter().position(|c| matches!(c, PCall::WrongShape)) {
        if !scn.pre && first_good.map(|g| w < g).unwrap_or(true) {
            ctx.fail("HARNESS", "invalid-scenario", "pair", "wrong-shape call before the first shape".to_string());
            return;
        }
    }
    let shapes = match build_all(&scn.shapes) {
        Ok(s) => s,
        Err(e) => {
            ctx.fail("HARNESS", "build", "ctor", e);
            return;
        }
    };
    let other = match build_all(std::slice::from_ref(&scn.other)) {
        Ok(mut s) => s.remove(0),
        Err(e) => {
            ctx.fail("HARNESS", "build", "ctor", e);
            return;
        }
    };
    if scn.pre {
        execute_pre(scn, &shapes, &other, ty, ctx);
        return;
    }
    let geoms: Vec<Geom> = shapes.iter().map(capture).collect();
    let hist = hist_name(&scn.calls);
    let bad = first_bad_row(&scn.calls);
    let world = World::new(Plan::default());
    let mut expected: Vec<usize> = Vec::new(); // shape index of each successfully written pair
    {
        let sw = ShapeWriter::with_shx(Stack::writer(&world, SHP, scn.stack), Stack::writer(&world, SHX, scn.stack));
        let tw = table().build_with_dest(Stack::writer(&world, DBF, dbf_stack(scn.stack)));
        let mut writer = Writer::new(sw, tw);
        for (ci, call) in scn.calls.iter().enumerate() {
            let first_ev = world.borrow().log.len();
            let idx = expected.len();
            let row = row_for(call, idx);
            let (sh, si) = match call {
                PCall::Good(i) | PCall::MissingField(i) | PCall::WrongFieldType(i) => (&shapes[*i as usize % shapes.len()], *i as usize % shapes.len()),
                PCall::WrongShape => (&other, 0),
            };
            let r = guarded(|| on_shape!(sh, s => writer.write_shape_and_record(s, &row), Ok(())));
            let end_ev = world.borrow().log.len();
            match (&r, call) {
                (Err(p), _) => {
                    ctx.fail("C08", "panic", p.site(), format!("history {}: call {} panicked: {}", hist, ci, p.text()));
                    return;
                }
                (Ok(Ok(())), PCall::Good(_)) => expected.push(si),
                (Ok(Ok(())), _) => ctx.fail("C08", "failing-call-returns-error", hist_name(&[*call]), format!("history {}: call {} ({:?}) returned Ok", hist, ci, call)),
                (Ok(Err(e)), PCall::Good(_)) => ctx.fail("C08", "good-pair-accepted", bad, format!("history {}: a good pair was refused at call {}: {:?}", hist, ci, classify(e))),
                (Ok(Err(e)), PCall::WrongShape) => {
                    // C10, last clause: exact error, no device operation on any of the three files
                    let want = RErr::Mismatch { requested: ty, actual: scn.other.ty };
                    if classify(e) != want {
                        ctx.fail("C10", "rejected-error", type_name(ty), format!("complete writer, history {}: a {} offered to a {} file returned {:?}", hist, type_name(scn.other.ty), type_name(ty), classify(e)));
                    }
                    if end_ev != first_ev {
                        ctx.fail("C10", "rejected-no-io", "complete-writer", format!("complete writer, history {}: the rejected pair caused {} device operations", hist, end_ev - first_ev));
                    }
                    ctx.stats.reach("rejected-pair");
                }
                (Ok(Err(_)), _) => ctx.stats.reach("failing-row-call"),
            }
            // after every call: the three physical entry counts agree (device content is what the
            // library emitted only on the Direct stack)
            if scn.stack == StackCfg::Direct {
                let wb = world.borrow();
                let (recs, entries, rows, stray) = scan(wb.data(SHP), wb.data(SHX), wb.data(DBF));
                if !(recs == entries && entries == rows && stray == 0) {
                    ctx.fail("C08", "entry-counts", bad, format!("history {}: after call {} ({:?}) the files hold {} shp records, {} shx entries, {} whole dbf rows and {} stray dbf bytes", hist, ci, call, recs, entries, rows, stray));
                }
            }
        }
        if !scn.ending_bulk.is_empty() {
            let items: Vec<usize> = scn.ending_bulk.iter().map(|i| *i as usize % shapes.len()).collect();
            let base = expected.len();
            let rows: Vec<dbase::Record> = (0..items.len()).map(|k| good_row(base + k)).collect();
            let r = guarded(|| {
                crate::on_type!(ty, S => {
                    let concrete: Vec<S> = items.iter().filter_map(|i| S::try_from(crate::geom::build(&scn.shapes[*i])).ok()).collect();
                    writer.write_shapes_and_records(concrete.iter().zip(rows.iter()))
                }, Ok(()))
            });
            match r {
                Ok(Ok(())) => expected.extend(items),
                Ok(Err(e)) => ctx.fail("C08", "good-pair-accepted", bad, format!("history {}: write_shapes_and_records failed: {:?}", hist, classify(&e))),
                Err(p) => {
                    ctx.fail("C08", "panic", p.site(), p.text());
                    return;
                }
            }
        } else if let Err(p) = guarded(move || drop(writer)) {
            ctx.fail("C08", "panic", p.site(), format!("drop: {}", p.text()));
            return;
        }
    }
    ctx.stats.absorb_world(&world.borrow());
    let (shp, shx, dbf) = {
        let wb = world.borrow();
        (wb.data(SHP).to_vec(), wb.data(SHX).to_vec(), wb.data(DBF).to_vec())
    };
    // at the end: records = entries = rows declared = rows present
    let n = expected.len();
    let recs = decode(&shp).map(|d| d.recs.len() as i64).unwrap_or(-1);
    let entries = decode_shx(&shx).map(|d| d.entries.len() as i64).unwrap_or(-1);
    let (declared, present, stray) = if dbf.is_empty() && n == 0 { (0, 0, 0) } else { dbf_info(&dbf).map(|d| (d.rows_declared as i64, d.rows_physical as i64, d.stray_bytes)).unwrap_or((-1, -1, 0)) };
    if !(recs == n as i64 && entries == n as i64 && declared == n as i64 && present == n as i64 && stray == 0) {
        ctx.fail("C08", "entry-counts", bad, format!("history {}: {} pairs were written but the files hold {} shp records, {} shx entries, {} rows declared in the dbf header, {} rows present (+{} stray bytes)", hist, n, recs, entries, declared, present, stray));
    }
    // the complete reader returns the pairs, shape i with row i
    let never = |_: usize, _: usize| false;
    if !(dbf.is_empty() && n == 0) {
        let w2 = World::with_data(Plan::default(), shp.clone(), shx.clone(), dbf.clone());
        let r = guarded(|| -> Result<Vec<(Geom, Option<i64>, Option<String>)>, shapefile::Error> {
            let sr = ShapeReader::with_shx(Stack::reader(&w2, SHP, StackCfg::Direct), Stack::reader(&w2, SHX, StackCfg::Direct))?;
            let dr = dbase::Reader::new(Stack::reader(&w2, DBF, StackCfg::Direct))?;
            let mut rd = Reader::new(sr, dr);
            let mut out = Vec::new();
            for item in rd.iter_shapes_and_records().take(n + 8) {
                let (s, rec) = item?;
                let idx = match rec.get("idx") {
                    Some(dbase::FieldValue::Integer(i)) => Some(*i as i64),
                    _ => None,
                };
                let name = match rec.get("name") {
                    Some(dbase::FieldValue::Character(Some(s))) => Some(s.clone()),
                    _ => None,
                };
                out.push((capture(&s), idx, name));
            }
            Ok(out)
        });
        match r {
            Err(p) => ctx.fail("C08", "panic", p.site(), format!("complete reader: {}", p.text())),
            Ok(Err(e)) => ctx.fail("C08", "reader-pairs", bad, format!("history {}: the complete reader failed: {:?}", hist, classify(&e))),
            Ok(Ok(pairs)) => {
                let mut ok = pairs.len() == n;
                for (k, (g, idx, name)) in pairs.iter().enumerate() {
                    if !ok {
                        break;
                    }
                    ok = diff_read(&geoms[expected[k]].normalised_for_read(), g, k, &never).is_none() && *idx == Some(k as i64) && name.as_deref() == Some(&format!("n{}", k));
                }
                if !ok {
                    ctx.fail("C08", "reader-pairs", bad, format!("history {}: {} pairs written, the complete reader returned {:?}", hist, n, pairs.iter().map(|(g, i, nm)| format!("{}#{:?}/{:?}", g.short(), i, nm)).collect::<Vec<_>>()));
                }
            }
        }
    }
    // the complete reader after seek(k), and after a typed access that fails followed by seek: the
    // pairs from k on, shape i with row i (histories without a failing row only)
    if bad == "no-failing-row" && n >= 2 {
        let w3 = World::with_data(Plan::default(), shp.clone(), shx.clone(), dbf.clone());
        let r = guarded(|| -> Result<Vec<(usize, Vec<(Geom, Option<i64>)>)>, shapefile::Error> {
            let sr = ShapeReader::with_shx(Stack::reader(&w3, SHP, StackCfg::Direct), Stack::reader(&w3, SHX, StackCfg::Direct))?;
            let dr = dbase::Reader::new(Stack::reader(&w3, DBF, StackCfg::Direct))?;
            let mut rd = Reader::new(sr, dr);
            let mut out = Vec::new();
            let other_is_point = ty != 1;
            for k in [1usize, n - 1, 0, n / 2, n - n / 4] {
                if k > 0 {
                    // a typed pair iteration of another type fails at entry k-1 ...
                    rd.seek(k - 1)?;
                    if other_is_point {
                        let _ = rd.iter_shapes_and_records_as::<shapefile::Point, dbase::Record>().next();
                    } else {
                        let _ = rd.iter_shapes_and_records_as::<shapefile::Polyline, dbase::Record>().next();
                    }
                }
                // ... then seek(k) and read on
                rd.seek(k)?;
                let mut got = Vec::new();
                for item in rd.iter_shapes_and_records().take(n + 2) {
                    let (s, rec) = item?;
                    got.push((capture(&s), match rec.get("idx") { Some(dbase::FieldValue::Integer(i)) => Some(*i as i64), _ => None }));
                }
                out.push((k, got));
            }
            Ok(out)
        });
        match r {
            Err(p) => ctx.fail("C08", "panic", p.site(), format!("complete reader with seek: {}", p.text())),
            Ok(Err(e)) => ctx.fail("C08", "reader-pairs", "after-seek", format!("history {}: the complete reader failed after seek: {:?}", hist, classify(&e))),
            Ok(Ok(runs)) => {
                for (k, got) in runs {
                    let ok = got.len() == n - k && got.iter().enumerate().all(|(t, (g, idx))| diff_read(&geoms[expected[k + t]].normalised_for_read(), g, k + t, &never).is_none() && *idx == Some((k + t) as i64));
                    if !ok {
                        ctx.fail("C08", "reader-pairs", "after-seek", format!("history {}: after a failed typed access and seek({}) the complete reader returned {:?}", hist, k, got.iter().map(|(g, i)| format!("{}#{:?}", g.short(), i)).collect::<Vec<_>>()));
                        break;
                    }
                }
            }
        }
        ctx.stats.absorb_world(&w3.borrow());
    }
    // C06 through the complete reader: from the same state (after seek(k)), the typed bulk read
    // returns what the generic bulk read returns, converted
    if bad == "no-failing-row" && n >= 2 {
        let idx_of = |rec: &dbase::Record| match rec.get("idx") {
            Some(dbase::FieldValue::Integer(i)) => Some(*i as i64),
            _ => None,
        };
        for k in [1usize, n - 1, 0] {
            let w5 = World::with_data(Plan::default(), shp.clone(), shx.clone(), dbf.clone());
            let r = guarded(|| -> Result<(Vec<(Geom, Option<i64>)>, Vec<(Geom, Option<i64>)>), shapefile::Error> {
                let open = || -> Result<Reader<Stack, Stack>, shapefile::Error> { Ok(Reader::new(ShapeReader::with_shx(Stack::reader(&w5, SHP, StackCfg::Direct), Stack::reader(&w5, SHX, StackCfg::Direct))?, dbase::Reader::new(Stack::reader(&w5, DBF, StackCfg::Direct))?)) };
                let mut r1 = open()?;
                let mut r2 = open()?;
                r1.seek(k)?;
                r2.seek(k)?;
                let generic: Vec<(Geom, Option<i64>)> = r1.read()?.iter().map(|(s, rec)| (capture(s), idx_of(rec))).collect();
                let typed: Vec<(Geom, Option<i64>)> = crate::on_type!(ty, S => r2.read_as::<S, dbase::Record>()?.into_iter().map(|(s, rec)| (s.to_geom(), idx_of(&rec))).collect(), vec![]);
                Ok((generic, typed))
            });
            match r {
                Ok(Ok((generic, typed))) => {
                    if generic != typed {
                        ctx.fail("C06", "typed-equals-generic-converted", "complete-reader-same-state", format!("history {}: after seek({}) Reader::read() returns {} pairs, Reader::read_as::<{}>() {} pairs: {:?} vs {:?}", hist, k, generic.len(), type_name(ty), typed.len(), generic.iter().map(|(g, i)| format!("{}#{:?}", g.short(), i)).collect::<Vec<_>>(), typed.iter().map(|(g, i)| format!("{}#{:?}", g.short(), i)).collect::<Vec<_>>()));
                        break;
                    }
                }
                Ok(Err(e)) => {
                    ctx.fail("C06", "typed-equals-generic-converted", "complete-reader-same-state", format!("history {}: bulk reads after seek({}) failed: {:?}", hist, k, classify(&e)));
                    break;
                }
                Err(p) => {
                    ctx.fail("C06", "panic", p.site(), p.text());
                    break;
                }
            }
            ctx.stats.absorb_world(&w5.borrow());
        }
    }
    // the complete reader without index (the .shx is optional): two pair iterations on one reader,
    // the first stopped after half of the pairs; the second yields the remaining pairs (or all of
    // them again, C15), each shape still next to its own row
    // the complete reader without index: a seek is refused (no index), then the sequential fallback
    if bad == "no-failing-row" && n >= 1 {
        let w6 = World::with_data(Plan::default(), shp.clone(), shx.clone(), dbf.clone());
        let r = guarded(|| -> Result<(bool, Vec<(Geom, Option<i64>)>), shapefile::Error> {
            let mut rd = Reader::new(ShapeReader::new(Stack::reader(&w6, SHP, StackCfg::Direct))?, dbase::Reader::new(Stack::reader(&w6, DBF, StackCfg::Direct))?);
            let refused = matches!(rd.seek(n / 2), Err(shapefile::Error::MissingIndexFile));
            let pairs = rd.read()?.iter().map(|(s, rec)| (capture(s), match rec.get("idx") { Some(dbase::FieldValue::Integer(i)) => Some(*i as i64), _ => None })).collect();
            Ok((refused, pairs))
        });
        match r {
            Ok(Ok((refused, pairs))) => {
                let ok = refused && pairs.len() == n && pairs.iter().enumerate().all(|(k, (g, idx))| diff_read(&geoms[expected[k]].normalised_for_read(), g, k, &never).is_none() && *idx == Some(k as i64));
                if !ok {
                    ctx.fail("C08", "reader-pairs", "no-index-after-refused-seek", format!("history {}: without index, seek({}) {} and read() then returned {:?} ({} pairs written)", hist, n / 2, if refused { "was refused" } else { "was not refused" }, pairs.iter().map(|(g, i)| format!("{}#{:?}", g.short(), i)).collect::<Vec<_>>(), n));
                }
            }
            Ok(Err(e)) => ctx.fail("C08", "reader-pairs", "no-index-after-refused-seek", format!("history {}: the complete reader without index failed: {:?}", hist, classify(&e))),
            Err(p) => ctx.fail("C08", "panic", p.site(), p.text()),
        }
        ctx.stats.absorb_world(&w6.borrow());
    }
    for (with_index, via_nth) in [(false, false), (true, true), (false, true)] {
        if !(bad == "no-failing-row" && n >= 2) {
            break;
        }
        let w4 = World::with_data(Plan::default(), shp.clone(), shx.clone(), dbf.clone());
        let k = n / 2;
        let r = guarded(|| -> Result<(Vec<(Geom, Option<i64>)>, Vec<(Geom, Option<i64>)>), shapefile::Error> {
            let sr = if with_index { ShapeReader::with_shx(Stack::reader(&w4, SHP, StackCfg::Direct), Stack::reader(&w4, SHX, StackCfg::Direct))? } else { ShapeReader::new(Stack::reader(&w4, SHP, StackCfg::Direct))? };
            let dr = dbase::Reader::new(Stack::reader(&w4, DBF, StackCfg::Direct))?;
            let mut rd = Reader::new(sr, dr);
            let idx_of = |rec: &dbase::Record| match rec.get("idx") {
                Some(dbase::FieldValue::Integer(i)) => Some(*i as i64),
                _ => None,
            };
            let mut first = Vec::new();
            if via_nth {
                // k pairs consumed through Iterator::nth(k - 1) (what skip / step_by call): only the
                // k-th is returned; the others are filled in from the expectation for the comparison below
                if let Some(item) = rd.iter_shapes_and_records().nth(k - 1) {
                    let (s, rec) = item?;
                    for t in 0..k - 1 {
                        first.push((geoms[expected[t]].normalised_for_read(), Some(t as i64)));
                    }
                    first.push((capture(&s), idx_of(&rec)));
                }
            } else {
                for item in rd.iter_shapes_and_records().take(k) {
                    let (s, rec) = item?;
                    first.push((capture(&s), idx_of(&rec)));
                }
            }
            let mut second = Vec::new();
            for item in rd.iter_shapes_and_records().take(n + 2) {
                let (s, rec) = item?;
                second.push((capture(&s), idx_of(&rec)));
            }
            Ok((first, second))
        });
        match r {
            Err(p) => ctx.fail("C08", "panic", p.site(), format!("complete reader, two iterations: {}", p.text())),
            Ok(Err(e)) => ctx.fail("C08", "reader-pairs", if with_index { "two-iterations" } else { "no-index-two-iterations" }, format!("history {}: the complete reader ({} index, first iteration by {}) failed: {:?}", hist, if with_index { "with" } else { "without" }, if via_nth { "nth" } else { "take" }, classify(&e))),
            Ok(Ok((first, second))) => {
                let aligned = |from: usize, got: &[(Geom, Option<i64>)]| got.iter().enumerate().all(|(t, (g, idx))| from + t < n && diff_read(&geoms[expected[from + t]].normalised_for_read(), g, from + t, &never).is_none() && *idx == Some((from + t) as i64));
                let ok = first.len() == k && aligned(0, &first) && ((second.len() == n - k && aligned(k, &second)) || (second.len() == n && aligned(0, &second)));
                if !ok {
                    ctx.fail("C08", "reader-pairs", if with_index { "two-iterations" } else { "no-index-two-iterations" }, format!("history {}: {} index, {} pairs (by {}) then the rest: {:?} then {:?}", hist, if with_index { "with" } else { "without" }, k, if via_nth { "nth" } else { "take" }, first.iter().map(|(g, i)| format!("{}#{:?}", g.short(), i)).collect::<Vec<_>>(), second.iter().map(|(g, i)| format!("{}#{:?}", g.short(), i)).collect::<Vec<_>>()));
                }
            }
        }
        ctx.stats.absorb_world(&w4.borrow());
    }
    if scn.path && bad == "no-failing-row" {
        path_route(ctx, scn, &shapes, &geoms, ty);
    }
    ctx.stats.distinct.insert(crate::prng::fnv_str(&format!("{}|{}|{:?}|{:?}", ty, hist, scn.ending_bulk, scn.stack)));
}

fn path_route(ctx: &mut Ctx, scn: &PairScn, shapes: &[shapefile::Shape], geoms: &[Geom], _ty: i32) {
    let dir = crate::scratch_dir();
    // two data sets side by side whose names agree up to a dot inside the stem ("pair-H.a.shp",
    // "pair-H.b.shp"): each path names its own three files
    let stem = format!("pair-{}", crate::prng::fnv_str(&serde_json::to_string(scn).unwrap_or_default()));
    let base = dir.join(format!("{}.a.x", stem));
    let neighbour = dir.join(format!("{}.b.x", stem));
    let shp_path = base.with_extension(if crate::prng::fnv_str(&stem) % 2 == 0 { "shp" } else { "SHP" });
    let mut expected: Vec<usize> = Vec::new();
    // the path is not fresh: longer files are already there and must be replaced entirely
    for ext in ["shp", "shx", "dbf"] {
        let _ = std::fs::write(base.with_extension(ext), vec![0xCD; 4000]);
    }
    let r = guarded(|| -> Result<(), shapefile::Error> {
        let mut w = Writer::from_path(&shp_path, table())?;
        for call in &scn.calls {
            if let PCall::Good(i) = call {
                let si = *i as usize % shapes.len();
                let row = good_row(expected.len());
                on_shape!(&shapes[si], s => w.write_shape_and_record(s, &row)?, ());
                expected.push(si);
            }
        }
        Ok(())
    });
    match r {
        Ok(Ok(())) => {}
        Ok(Err(e)) => {
            ctx.fail("C08", "path-write", "from_path", format!("Writer::from_path route failed: {:?}", classify(&e)));
            return;
        }
        Err(p) => {
            ctx.fail("C08", "panic", p.site(), p.text());
            return;
        }
    }
    // the neighbouring data set is written afterwards: other rows, another count
    let r = guarded(|| -> Result<(), shapefile::Error> {
        // alternately with a table described by a builder and by the first data set's own table
        let mut w = if expected.len() % 2 == 0 {
            Writer::from_path(neighbour.with_extension("shp"), table())?
        } else {
            Writer::from_path_with_info(neighbour.with_extension("shp"), Reader::from_path(&shp_path)?.into_table_info())?
        };
        for k in 0..expected.len() + 2 {
            on_shape!(&shapes[0], s => w.write_shape_and_record(s, &good_row(1000 + k))?, ());
        }
        Ok(())
    });
    if !matches!(r, Ok(Ok(()))) {
        ctx.fail("C08", "path-write", "from_path", "Writer::from_path route failed for the neighbouring data set".to_string());
    }
    ctx.stats.reach("path-route");
    let never = |_: usize, _: usize| false;
    let idx_of = |rec: &dbase::Record| match rec.get("idx") {
        Some(dbase::FieldValue::Integer(i)) => Some(*i as i64),
        _ => None,
    };
    let ty = _ty;
    for route in ["shapefile::read", "Reader::from_path", "shapefile::read_as", "Reader::read_as", "neighbour"] {
        let r = guarded(|| -> Result<Vec<(Geom, Option<i64>)>, shapefile::Error> {
            Ok(match route {
                "shapefile::read" => shapefile::read(&shp_path)?.iter().map(|(s, rec)| (capture(s), idx_of(rec))).collect(),
                "Reader::from_path" => Reader::from_path(&shp_path)?.read()?.iter().map(|(s, rec)| (capture(s), idx_of(rec))).collect(),
                "shapefile::read_as" => crate::on_type!(ty, S => shapefile::read_as::<_, S, dbase::Record>(&shp_path)?.into_iter().map(|(s, rec)| (s.to_geom(), idx_of(&rec))).collect(), vec![]),
                "Reader::read_as" => crate::on_type!(ty, S => Reader::from_path(&shp_path)?.read_as::<S, dbase::Record>()?.into_iter().map(|(s, rec)| (s.to_geom(), idx_of(&rec))).collect(), vec![]),
                _ => shapefile::read(neighbour.with_extension("shp"))?.iter().map(|(s, rec)| (capture(s), idx_of(rec))).collect(),
            })
        });
        match r {
            Ok(Ok(pairs)) if route == "neighbour" => {
                let want = expected.len() + 2;
                let ok = pairs.len() == want && pairs.iter().enumerate().all(|(k, (g, idx))| diff_read(&geoms[0].normalised_for_read(), g, k, &never).is_none() && *idx == Some(1000 + k as i64));
                if !ok {
                    ctx.fail("C08", "reader-pairs", "path", format!("the neighbouring data set: {} pairs written by path, read back {:?}", want, pairs.iter().map(|(g, i)| format!("{}#{:?}", g.short(), i)).collect::<Vec<_>>()));
                }
            }
            Ok(Ok(pairs)) => {
                let ok = pairs.len() == expected.len() && pairs.iter().enumerate().all(|(k, (g, idx))| diff_read(&geoms[expected[k]].normalised_for_read(), g, k, &never).is_none() && *idx == Some(k as i64));
                if !ok {
                    ctx.fail("C08", "reader-pairs", "path", format!("{}: {} pairs written by path, read back {:?}", route, expected.len(), pairs.iter().map(|(g, i)| format!("{}#{:?}", g.short(), i)).collect::<Vec<_>>()));
                }
            }
            Ok(Err(e)) => ctx.fail("C08", "reader-pairs", "path", format!("{} failed: {:?}", route, classify(&e))),
            Err(p) => ctx.fail("C08", "panic", p.site(), p.text()),
        }
    }
    for ext in ["shp", "shx", "dbf"] {
        let _ = std::fs::remove_file(base.with_extension(ext));
        let _ = std::fs::remove_file(neighbour.with_extension(ext));
    }
    // whatever else a data set left in the directory under a name derived from the stem
    if let Ok(rd) = std::fs::read_dir(&dir) {
        for e in rd.flatten() {
            if e.file_name().to_string_lossy().starts_with(&stem) {
                let _ = std::fs::remove_file(e.path());
            }
        }
    }
}

/// C10 through a complete writer built over a ShapeWriter that has already written a shape (the
/// file's type is set before `Writer::new`): every rejected pair names the two types and touches
/// nothing, every good pair is accepted, and the three files equal those of the same history
/// without the rejected calls.
fn execute_pre(scn: &PairScn, shapes: &[shapefile::Shape], other: &shapefile::Shape, ty: i32, ctx: &mut Ctx) {
    if scn.calls.iter().any(|c| !matches!(c, PCall::Good(_) | PCall::WrongShape)) || !scn.ending_bulk.is_empty() {
        ctx.fail("HARNESS", "invalid-scenario", "pair", "pre-used writer histories are made of good pairs and rejected shapes only".to_string());
        return;
    }
    let hist = hist_name(&scn.calls);
    let run = |with_rejected: bool, ctx: &mut Ctx| -> Option<(Vec<u8>, Vec<u8>, Vec<u8>)> {
        let world = World::new(Plan::default());
        {
            let mut sw = ShapeWriter::with_shx(Stack::writer(&world, SHP, scn.stack), Stack::writer(&world, SHX, scn.stack));
            if !matches!(guarded(|| on_shape!(&shapes[0], s => sw.write_shape(s), Ok(()))), Ok(Ok(()))) {
                ctx.fail("HARNESS", "invalid-scenario", "pair", "the first shape cannot be written".to_string());
                return None;
            }
            let tw = table().build_with_dest(Stack::writer(&world, DBF, dbf_stack(scn.stack)));
            let mut writer = Writer::new(sw, tw);
            let mut rows = 0usize;
            for (ci, call) in scn.calls.iter().enumerate() {
                let first_ev = world.borrow().log.len();
                match call {
                    PCall::WrongShape => {
                        if !with_rejected {
                            continue;
                        }
                        let r = guarded(|| on_shape!(other, s => writer.write_shape_and_record(s, &good_row(rows)), Ok(())));
                        let want = RErr::Mismatch { requested: ty, actual: scn.other.ty };
                        match r {
                            Ok(Err(e)) if classify(&e) == want => {}
                            Ok(x) => ctx.fail("C10", "rejected-error", type_name(ty), format!("complete writer over a used ShapeWriter, history {}: a {} offered to a {} file returned {:?}", hist, type_name(scn.other.ty), type_name(ty), x.map_err(|e| classify(&e)))),
                            Err(p) => ctx.fail("C10", "panic", p.site(), p.text()),
                        }
                        if world.borrow().log.len() != first_ev {
                            ctx.fail("C10", "rejected-no-io", "complete-writer", format!("complete writer over a used ShapeWriter, history {}: the rejected pair caused device operations", hist));
                        }
                    }
                    PCall::Good(i) => {
                        let r = guarded(|| on_shape!(&shapes[*i as usize % shapes.len()], s => writer.write_shape_and_record(s, &good_row(rows)), Ok(())));
                        match r {
                            Ok(Ok(())) => rows += 1,
                            Ok(Err(e)) => ctx.fail("C10", "changes-nothing-else", "complete-writer", format!("complete writer over a used ShapeWriter, history {}: the good pair at call {} was refused with {:?}{}", hist, ci, classify(&e), if with_rejected { " (rejected calls precede it)" } else { "" })),
                            Err(p) => ctx.fail("C10", "panic", p.site(), p.text()),
                        }
                    }
                    _ => {}
                }
            }
            if with_rejected && scn.calls.len() % 2 == 1 {
                // the writer is consumed by the bulk call, offered two pairs of the other type: refused
                // as a whole, nothing of it reaches any of the three files
                let rows = [good_row(rows), good_row(rows + 1)];
                let r = guarded(move || {
                    crate::on_type!(scn.other.ty, S => {
                        let o: Vec<S> = (0..2).filter_map(|_| S::try_from(crate::geom::build(&scn.other)).ok()).collect();
                        writer.write_shapes_and_records(o.iter().zip(rows.iter()))
                    }, Ok(()))
                });
                let want = RErr::Mismatch { requested: ty, actual: scn.other.ty };
                match r {
                    Ok(Err(e)) if classify(&e) == want => {}
                    Ok(x) => ctx.fail("C10", "rejected-error", type_name(ty), format!("complete writer, history {}: write_shapes_and_records of {} pairs into a {} file returned {:?}", hist, type_name(scn.other.ty), type_name(ty), x.map_err(|e| classify(&e)))),
                    Err(p) => ctx.fail("C10", "panic", p.site(), p.text()),
                }
                ctx.stats.reach("bulk-pairs-of-another-type-rejected");
            } else {
                let _ = guarded(move || drop(writer));
            }
        }
        let wb = world.borrow();
        Some((wb.data(SHP).to_vec(), wb.data(SHX).to_vec(), wb.data(DBF).to_vec()))
    };
    let (Some(a), Some(b)) = (run(true, ctx), run(false, ctx)) else { return };
    // the .dbf header carries today's date in bytes 1..4
    let strip = |d: &[u8]| -> Vec<u8> { d.iter().enumerate().filter(|(i, _)| !(1..4).contains(i)).map(|(_, b)| *b).collect() };
    if a.0 != b.0 || a.1 != b.1 || strip(&a.2) != strip(&b.2) {
        ctx.fail("C10", "same-as-without-rejected", "complete-writer", format!("complete writer over a used ShapeWriter, history {}: the files differ from those of the history without the rejected calls (.shp {} vs {}, .shx {} vs {}, .dbf {} vs {} bytes)", hist, a.0.len(), b.0.len(), a.1.len(), b.1.len(), a.2.len(), b.2.len()));
    }
    ctx.stats.reach("complete-writer-over-used-shape-writer");
    ctx.stats.distinct.insert(crate::prng::fnv_str(&format!("pre|{}|{}|{:?}", ty, hist, scn.stack)));
}

/// Sweep unit: unit = type index; all histories up to `max_len` over the 5 call kinds
/// (wrong-shape never first) x 2 endings x 2 stacks.
pub fn sweep_unit(unit: u64, max_len: usize, ctx: &mut Ctx, ctl: &mut UnitCtl) {
    let ty = TYPES[(unit % 13) as usize];
    let other_ty = TYPES[((unit + 5) % 13) as usize];
    let shapes = vec![grid_spec(ty, 1, 2, 3), grid_spec(ty, 2, 3, 50)];
    let other = grid_spec(other_ty, 1, 2, 9);
    let letters = [PCall::Good(0), PCall::Good(1), PCall::WrongShape, PCall::MissingField(0), PCall::WrongFieldType(1)];
    let mut stack: Vec<Vec<PCall>> = vec![vec![]];
    while let Some(h) = stack.pop() {
        if h.first() != Some(&PCall::WrongShape) {
            for (ei, ending) in [vec![], vec![1u8, 0]].into_iter().enumerate() {
                for st in [StackCfg::Direct, StackCfg::Buf(64)] {
                    let scn = PairScn { shapes: shapes.clone(), other: other.clone(), calls: h.clone(), ending_bulk: ending.clone(), stack: st, path: ei == 0 && st == StackCfg::Direct && h.len() == 2, pre: false };
                    if !ctl.before_case(|| Scenario::Pair(scn.clone())) {
                        continue;
                    }
                    ctx.stats.evaluations += 1;
                    execute(&scn, ctx);
                    if ctx.stats.samples.len() < 2 && h.len() == max_len && ctl.case_no % 211 == 3 {
                        ctx.stats.samples.push(serde_json::json!({"type": type_name(ty), "history": hist_name(&h), "ending_bulk": ending, "stack": format!("{:?}", st)}));
                    }
                    ctl.after_case(ctx, || Scenario::Pair(scn.clone()));
                }
            }
        }
        if h.len() < max_len {
            for l in letters {
                let mut g = h.clone();
                g.push(l);
                stack.push(g);
            }
        }
    }
    // the complete writer over a ShapeWriter that already holds a type: all histories up to
    // length 3 over {good pair a, good pair b, rejected shape}, the rejected shape may come first
    let mut stack: Vec<Vec<PCall>> = vec![vec![]];
    while let Some(h) = stack.pop() {
        if h.iter().any(|c| matches!(c, PCall::WrongShape)) {
            for st in [StackCfg::Direct, StackCfg::Buf(64)] {
                let scn = PairScn { shapes: shapes.clone(), other: other.clone(), calls: h.clone(), ending_bulk: vec![], stack: st, path: false, pre: true };
                if !ctl.before_case(|| Scenario::Pair(scn.clone())) {
                    continue;
                }
                ctx.stats.evaluations += 1;
                execute(&scn, ctx);
                ctl.after_case(ctx, || Scenario::Pair(scn.clone()));
            }
        }
        if h.len() < 3 {
            for l in [PCall::Good(0), PCall::Good(1), PCall::WrongShape] {
                let mut g = h.clone();
                g.push(l);
                stack.push(g);
            }
        }
    }
}

/// Seeded longer histories with varying shapes.
pub fn generate(r: &mut crate::prng::Rng) -> PairScn {
    let ty = *r.pick(&TYPES);
    let k = ShapeKnobs::draw(r);
    let n = r.usize(1, 4);
    let shapes: Vec<ShapeSpec> = (0..n).map(|_| gen_spec(r, ty, &k)).collect();
    let oty = loop {
        let t = *r.pick(&TYPES);
        if t != ty {
            break t;
        }
    };
    let other = gen_spec(r, oty, &ShapeKnobs::small());
    let len = r.usize(0, 10);
    let with_bad_rows = r.chance(1, 3);
    let mut calls = Vec::new();
    for _ in 0..len {
        let c = r.below(10);
        let i = r.below(n as u64) as u8;
        if c < 6 || calls.is_empty() {
            calls.push(PCall::Good(i));
        } else if c < 8 {
            calls.push(PCall::WrongShape);
        } else if with_bad_rows {
            calls.push(if c == 8 { PCall::MissingField(i) } else { PCall::WrongFieldType(i) });
        } else {
            calls.push(PCall::Good(i));
        }
    }
    if matches!(calls.first(), Some(PCall::WrongShape)) {
        calls[0] = PCall::Good(0);
    }
    let ending_bulk = if r.chance(1, 3) { (0..r.usize(1, 3)).map(|_| r.below(n as u64) as u8).collect() } else { vec![] };
    PairScn { shapes, other, calls, ending_bulk, stack: gen_stack(r), path: r.chance(1, 10), pre: false }
}

/// Many pairs in one file (around and beyond internal limits of the readers).
pub fn large_unit(unit: u64, ctx: &mut Ctx, ctl: &mut UnitCtl) {
    let (n, ty) = [(1025usize, 1), (4097, 21), (6000, 3)][(unit % 3) as usize];
    let scn = PairScn {
        // seven different shapes in rotation (of different sizes where the type allows it): a pair
        // that is read from the wrong index entry is seen as such
        shapes: (0..7).map(|i| grid_spec(ty, 1, 2 + i % 3, 3 + i)).collect(),
        other: grid_spec(if ty == 1 { 3 } else { 1 }, 1, 2, 9),
        calls: (0..n).map(|i| PCall::Good((i % 7) as u8)).collect(),
        ending_bulk: vec![],
        stack: StackCfg::Buf(8192),
        path: unit % 3 == 1,
        pre: false,
    };
    if !ctl.before_case(|| Scenario::Pair(scn.clone())) {
        return;
    }
    ctx.stats.evaluations += 1;
    ctx.stats.reach("large-scenario");
    execute(&scn, ctx);
    ctl.after_case(ctx, || Scenario::Pair(scn.clone()));
}
