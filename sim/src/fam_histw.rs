//! Family HIST-W: writer histories (S3) x stacks (S4). Decides C09 (interleavings of writes and
//! finalize), C10 (one type per writer, rejected writes change nothing) and the history part of
//! C05 (the header box is a fold over the whole history).

use crate::core::*;
use crate::fam_rt::check_bytes;
use crate::gen::*;
use crate::geom::*;
use crate::prng::Rng;
use crate::refcodec::*;
use crate::scn::{Scenario, UnitCtl};
use crate::world::*;
use crate::wrun::*;
use serde::{Deserialize, Serialize};

#[derive(Clone, Debug, Serialize, Deserialize)]
pub struct HwScn {
    pub w: WProg,
    #[serde(default)]
    pub wplan: Plan,
    /// also run the history through ShapeWriter::from_path over longer pre-existing files
    #[serde(default)]
    pub path: bool,
    /// the destinations are BufWriters the caller keeps and only lends to the writer (`&mut`): what
    /// the devices hold right after the writer is dropped - the caller has not flushed anything
    /// yet - is judged (write / finalize histories ending in a plain drop)
    #[serde(default)]
    pub lent: bool,
}

/// What the model says a history leaves behind: every W(i) is written, every Other(i) rejected.
fn model_written(p: &WProg) -> Vec<usize> {
    let mut v: Vec<usize> = p.calls.iter().filter_map(|c| if let WCall::W(i) = c { Some(*i) } else { None }).filter(|i| *i < p.shapes.len()).collect();
    if let Ending::WriteShapes(l) = &p.ending {
        v.extend(l.iter().copied().filter(|i| *i < p.shapes.len()));
    }
    v
}

fn history_site(p: &WProg) -> &'static str {
    let first_w = p.calls.iter().position(|c| matches!(c, WCall::W(_)));
    let first_f = p.calls.iter().position(|c| matches!(c, WCall::Fin | WCall::FinRetry));
    match (first_f, first_w) {
        (Some(f), Some(w)) if f < w => "finalize-before-first-write",
        (Some(_), None) => "finalize-before-first-write",
        _ => "general",
    }
}

/// Destinations lent to the writer (see `HwScn::lent`).
fn execute_lent(scn: &HwScn, ctx: &mut Ctx) {
    use crate::on_shape;
    let p = &scn.w;
    let StackCfg::Buf(_) = p.stack else {
        ctx.fail("HARNESS", "invalid-scenario", "lent", "lent destinations are buffered ones".to_string());
        return;
    };
    if p.calls.iter().any(|c| matches!(c, WCall::Other(_))) || !matches!(p.ending, Ending::Drop) {
        ctx.fail("HARNESS", "invalid-scenario", "lent", "lent histories are made of writes and finalize calls and end in a drop".to_string());
        return;
    }
    let Ok(shapes) = build_all(&p.shapes) else {
        ctx.fail("HARNESS", "build", "ctor", "cannot build the shapes".to_string());
        return;
    };
    let pat = pattern(p);
    // reference: the same shapes written and dropped by a writer that owns its destinations
    let plain = WProg { shapes: p.shapes.clone(), others: vec![], calls: p.calls.iter().filter(|c| matches!(c, WCall::W(_))).cloned().collect(), ending: Ending::Drop, with_shx: p.with_shx, stack: p.stack };
    let world_b = World::new(Plan::default());
    let run_b = run_writer(&world_b, &plain);
    if run_b.build_panic.is_some() || run_b.marks.iter().any(|m| !m.res.is_ok()) {
        ctx.fail("HARNESS", "invalid-scenario", "lent", "the reference run fails".to_string());
        return;
    }
    let world = World::new(Plan::default());
    let mut shp = Stack::writer(&world, SHP, p.stack);
    let mut shx = Stack::writer(&world, SHX, p.stack);
    let r = guarded(|| -> Result<(), shapefile::Error> {
        let mut w = if p.with_shx { shapefile::ShapeWriter::with_shx(&mut shp, &mut shx) } else { shapefile::ShapeWriter::new(&mut shp) };
        for c in &p.calls {
            match c {
                WCall::W(i) => on_shape!(&shapes[*i % shapes.len()], s => w.write_shape(s)?, ()),
                WCall::Fin | WCall::FinRetry => w.finalize()?,
                WCall::Other(_) => {}
            }
        }
        Ok(())
    });
    match r {
        Ok(Ok(())) => {}
        Ok(Err(e)) => {
            ctx.fail("C09", "write-ok", "lent", format!("history {} on lent destinations: {:?}", pat, classify(&e)));
            return;
        }
        Err(pi) => {
            ctx.fail("C09", "panic", pi.site(), format!("history {} on lent destinations: {}", pat, pi.text()));
            return;
        }
    }
    // the writer is gone, its destinations are still in the caller's hands, unflushed by the caller
    {
        let wb = world.borrow();
        let wbb = world_b.borrow();
        if wb.data(SHP) != wbb.data(SHP) {
            ctx.fail("C09", "same-as-drop", "lent-destinations", format!("history {}: right after the writer was dropped the .shp device holds {} bytes that differ from write-then-drop ({} bytes) at offset {:?} (the destinations are BufWriters lent to the writer)", pat, wb.data(SHP).len(), wbb.data(SHP).len(), first_diff(wb.data(SHP), wbb.data(SHP))));
        }
        if p.with_shx && wb.data(SHX) != wbb.data(SHX) {
            ctx.fail("C09", "same-as-drop", "lent-destinations", format!("history {}: right after the writer was dropped the .shx device holds {} bytes that differ from write-then-drop ({} bytes)", pat, wb.data(SHX).len(), wbb.data(SHX).len()));
        }
    }
    drop(shp);
    drop(shx);
    ctx.stats.absorb_world(&world.borrow());
    ctx.stats.reach("destinations-lent-to-the-writer");
    ctx.stats.distinct.insert(crate::prng::fnv_str(&format!("lent|{}|{}|{:?}", p.shapes.first().map(|s| s.ty).unwrap_or(0), pat, p.stack)));
}

pub fn execute(scn: &HwScn, ctx: &mut Ctx) {
    if scn.lent {
        execute_lent(scn, ctx);
        return;
    }
    let p = &scn.w;
    let ty = p.shapes.first().map(|s| s.ty).unwrap_or(0);
    // validity of the scenario (the minimiser may produce histories outside the family)
    let first_w = p.calls.iter().position(|c| matches!(c, WCall::W(i) if *i < p.shapes.len()));
    let first_o = p.calls.iter().position(|c| matches!(c, WCall::Other(_)));
    if let Some(o) = first_o {
        if first_w.map(|w| o < w).unwrap_or(true) {
            ctx.fail("HARNESS", "invalid-scenario", "other-before-first-write", "a write of another type precedes the first write".to_string());
            return;
        }
    }
    if p.shapes.iter().any(|s| s.ty != ty) || p.others.iter().any(|s| s.ty == ty) {
        ctx.fail("HARNESS", "invalid-scenario", "types", "shape types of the scenario are inconsistent".to_string());
        return;
    }
    let world = World::new(scn.wplan.clone());
    let run = run_writer(&world, p);
    if let Some(e) = &run.build_panic {
        ctx.fail("HARNESS", "build", "ctor", e.clone());
        return;
    }
    ctx.stats.absorb_world(&world.borrow());
    // destinations that already hold older bytes: an in-memory destination cannot be truncated, so
    // what lies beyond the new file stays; only the differential clauses apply
    let prefilled = scn.wplan.dev.iter().any(|d| d.prefill > 0);
    let hsite = history_site(p);
    let pat = pattern(p);
    let expect_written = model_written(p);

    // per-call expectations
    let mut written_so_far: Vec<usize> = Vec::new();
    let mut clean_since_fin = false; // a successful finalize happened and nothing was written since
    for m in &run.marks {
        if let CallRes::Panic(msg, loc) = &m.res {
            let prop = if m.call.starts_with("write-other") { "C10" } else { "C09" };
            ctx.fail(prop, "panic", format!("panic:writer:{}", loc.rsplit('/').next().unwrap_or("").split(':').next().unwrap_or("")), format!("{} in history {}: {} at {}", m.call, pat, msg, loc));
            continue;
        }
        if m.call.starts_with("write-other") {
            let i = m.call_no;
            let offered_ty = match &p.calls[i] {
                WCall::Other(k) => p.others[*k].ty,
                _ => 0,
            };
            let want = CallRes::Err(RErr::Mismatch { requested: ty, actual: offered_ty });
            if m.res != want {
                ctx.fail("C10", "rejected-error", format!("{}", type_name(ty)), format!("history {}: write of a {} into a {} writer returned {}", pat, type_name(offered_ty), type_name(ty), m.res.short()));
            }
            if m.end_ev != m.first_ev {
                ctx.fail("C10", "rejected-no-io", "events", format!("history {}: the rejected write issued {} device operations", pat, m.end_ev - m.first_ev));
            }
        } else if m.call.starts_with("write(") {
            if !m.res.is_ok() {
                ctx.fail("C09", "write-ok", "write", format!("history {}: {} returned {}", pat, m.call, m.res.short()));
            } else if let WCall::W(i) = &p.calls[m.call_no] {
                written_so_far.push(*i);
            }
            clean_since_fin = false;
        } else if m.call == "drop" {
            // Drop runs finalize: with nothing new to commit it must not touch the devices either
            if clean_since_fin && m.end_ev != m.first_ev {
                ctx.fail("C09", "idle-finalize-no-io", format!("{}:drop", hsite), format!("history {}: dropping a writer with nothing new to commit issued {} device operations", pat, m.end_ev - m.first_ev));
            }
        } else if m.call == "finalize" {
            if !m.res.is_ok() {
                ctx.fail("C09", "finalize-ok", hsite, format!("history {}: finalize returned {}", pat, m.res.short()));
                continue;
            }
            if clean_since_fin && m.end_ev != m.first_ev {
                ctx.fail("C09", "idle-finalize-no-io", hsite, format!("history {}: finalize with nothing new to commit issued {} device operations", pat, m.end_ev - m.first_ev));
            }

            if !clean_since_fin {
                ctx.stats.reach("finalize-with-work");
            } else {
                ctx.stats.reach("finalize-idle");
            }
            // "leaves both destinations flushed": inside a finalize that had something to commit, each
            // destination sees an Ok flush after its last write of the call
            if !clean_since_fin {
                let wb = world.borrow();
                for dev in [SHP, SHX] {
                    if dev == SHX && !p.with_shx {
                        continue;
                    }
                    let evs: Vec<&crate::world::Event> = wb.log[m.first_ev..m.end_ev].iter().filter(|e| e.dev as usize == dev).collect();
                    let last_write = evs.iter().rposition(|e| e.kind == OpKind::Write);
                    let last_flush = evs.iter().rposition(|e| e.kind == OpKind::Flush && e.err.is_none());
                    let ok = match (last_write, last_flush) {
                        (Some(w), Some(f)) => f > w,
                        (None, _) => true,
                        (Some(_), None) => false,
                    };
                    if !ok {
                        ctx.fail("C09", "flushed-after-finalize", format!("{}:{}", hsite, DEV_NAMES[dev]), format!("history {}: finalize returned Ok but the {} destination was not flushed after its last write of the call", pat, DEV_NAMES[dev]));
                    }
                }
            }
            // the device (below any buffer) holds a complete shapefile with the shapes written so far
            if let (Some((shp, shx)), false) = (&m.snap, prefilled) {
                let geoms: Vec<&Geom> = written_so_far.iter().map(|i| &run.geoms[*i]).collect();
                match decode(shp) {
                    Err(e) => ctx.fail("C09", "complete-after-finalize", hsite, format!("history {}: after finalize #{} the .shp device content is rejected by the strict decoder: {}", pat, m.call_no, e)),
                    Ok(dec) => {
                        if dec.recs.len() != geoms.len() {
                            ctx.fail("C09", "complete-after-finalize", hsite, format!("history {}: after a finalize the device holds {} records, {} shapes were written", pat, dec.recs.len(), geoms.len()));
                        } else {
                            for (k, (r, g)) in dec.recs.iter().zip(geoms.iter()).enumerate() {
                                if let Some(d) = diff(g, &r.geom, ty == 31, true) {
                                    ctx.fail("C09", "complete-after-finalize", hsite, format!("history {}: after a finalize record {} differs: {}", pat, k + 1, d));
                                    break;
                                }
                            }
                            if p.with_shx {
                                if let Err(e) = check_index(shp, shx, &dec) {
                                    ctx.fail("C09", "complete-after-finalize", hsite, format!("history {}: after a finalize the index is inconsistent: {}", pat, e));
                                }
                            }
                        }
                    }
                }
            }
            clean_since_fin = true;
        }
    }
    if run.marks.iter().any(|m| matches!(m.res, CallRes::Panic(..))) {
        return;
    }

    let shp = world.borrow().data(SHP).to_vec();
    let shx = world.borrow().data(SHX).to_vec();

    // C09 (1): byte-identical to "same shapes, simply drop"
    let plain = WProg {
        shapes: p.shapes.clone(),
        others: vec![],
        calls: expect_written.iter().map(|i| WCall::W(*i)).collect(),
        ending: Ending::Drop,
        with_shx: p.with_shx,
        stack: p.stack,
    };
    // the reference run gets destinations in the same initial state (position, older content)
    let mut plan_b = Plan::default();
    for (d, s) in plan_b.dev.iter_mut().zip(scn.wplan.dev.iter()) {
        d.start = s.start;
        d.prefill = s.prefill;
    }
    let world_b = World::new(plan_b);
    let run_b = run_writer(&world_b, &plain);
    ctx.stats.absorb_world(&world_b.borrow());
    let shp_b = world_b.borrow().data(SHP).to_vec();
    let shx_b = world_b.borrow().data(SHX).to_vec();
    if shp != shp_b {
        ctx.fail("C09", "same-as-drop", hsite, format!("history {}: .shp has {} bytes, differs from write-then-drop ({} bytes) at offset {:?}", pat, shp.len(), shp_b.len(), first_diff(&shp, &shp_b)));
    }
    if p.with_shx && shx != shx_b {
        ctx.fail("C09", "same-as-drop", hsite, format!("history {}: .shx has {} bytes, differs from write-then-drop ({} bytes) at offset {:?}", pat, shx.len(), shx_b.len(), first_diff(&shx, &shx_b)));
    }
    // C10: identical to the history with the rejected calls removed
    if !p.others.is_empty() && p.calls.iter().any(|c| matches!(c, WCall::Other(_))) {
        let stripped = WProg { calls: p.calls.iter().filter(|c| !matches!(c, WCall::Other(_))).cloned().collect(), others: vec![], ..p.clone() };
        let world_c = World::new(scn.wplan.clone());
        let run_c = run_writer(&world_c, &stripped);
        ctx.stats.absorb_world(&world_c.borrow());
        // "changes nothing else": every other call of the history causes exactly the device
        // operations it causes in the history without the rejected calls
        let sig = |w: &World, m: &Mark| -> Vec<(u8, u8, u64, u32)> { w.log[m.first_ev..m.end_ev].iter().map(|e| (e.dev, e.kind as u8, e.pos, e.moved)).collect() };
        let a: Vec<&Mark> = run.marks.iter().filter(|m| !m.call.starts_with("write-other")).collect();
        let c: Vec<&Mark> = run_c.marks.iter().collect();
        if a.len() == c.len() {
            let (wa, wc) = (world.borrow(), world_c.borrow());
            for (ma, mc) in a.iter().zip(c.iter()) {
                if sig(&wa, ma) != sig(&wc, mc) {
                    ctx.fail("C10", "rejected-changes-nothing", "later-call-differs", format!("history {}: call '{}' issues {} device operations, but {} in the same history without the rejected writes", pat, ma.call, ma.end_ev - ma.first_ev, mc.end_ev - mc.first_ev));
                    break;
                }
            }
        }
        if shp != world_c.borrow().data(SHP) || (p.with_shx && shx != world_c.borrow().data(SHX)) {
            ctx.fail("C10", "same-as-without-rejected", type_name(ty), format!("history {}: final files differ from those of the history with the rejected writes removed", pat));
        }
        ctx.stats.reach("rejected-write");
    }
    // the final files themselves: C02 / C04 / C05 on bytes (C05's history clause)
    let geoms: Vec<&Geom> = expect_written.iter().map(|i| &run.geoms[*i]).collect();
    if prefilled {
        ctx.stats.reach("destinations-with-older-content");
        ctx.stats.distinct.insert(crate::prng::fnv_str(&format!("{}|{}|{}|{:?}|prefilled", ty, pat, p.with_shx, p.stack)));
        return;
    }
    if run_b.marks.iter().all(|m| m.res.is_ok()) {
        check_bytes(ctx, ty, &shp_b, if p.with_shx { Some(&shx_b) } else { None }, &geoms, "plain");
    }
    check_bytes(ctx, ty, &shp, if p.with_shx { Some(&shx) } else { None }, &geoms, hsite);
    if scn.path && p.with_shx {
        path_route(ctx, scn, &run.geoms, ty, &shp, &shx, hsite, &pat);
    }
    ctx.stats.distinct.insert(crate::prng::fnv_str(&format!("{}|{}|{}|{:?}", ty, pat, p.with_shx, p.stack)));
}

/// The same history through ShapeWriter::from_path, over a destination path that already holds
/// longer files: after every successful finalize the files ON DISK must be a complete shapefile
/// with the shapes written so far, and the final files must equal the in-memory ones.
#[allow(clippy::too_many_arguments)]
fn path_route(ctx: &mut Ctx, scn: &HwScn, geoms: &[Geom], ty: i32, mem_shp: &[u8], mem_shx: &[u8], hsite: &str, pat: &str) {
    use crate::on_shape;
    let p = &scn.w;
    let dir = crate::scratch_dir();
    let base = dir.join(format!("hw-{}", crate::prng::fnv_str(&serde_json::to_string(&scn.w).unwrap_or_default())));
    let shp_path = base.with_extension("shp");
    let shx_path = base.with_extension("shx");
    let mut old = mem_shp.to_vec();
    old.extend_from_slice(mem_shp);
    old.extend_from_slice(&[0x5A; 200]);
    let _ = std::fs::write(&shp_path, &old);
    let _ = std::fs::write(&shx_path, &old);
    let Ok(shapes) = build_all(&p.shapes) else { return };
    let Ok(others) = build_all(&p.others) else { return };
    let mut so_far: Vec<usize> = Vec::new();
    let mut bad: Vec<String> = Vec::new();
    let r = guarded(|| -> Result<(), shapefile::Error> {
        let mut w = shapefile::ShapeWriter::from_path(&shp_path)?;
        for c in &p.calls {
            match c {
                WCall::W(i) if *i < shapes.len() => {
                    on_shape!(&shapes[*i], s => w.write_shape(s)?, ());
                    so_far.push(*i);
                }
                WCall::Other(i) if *i < others.len() => {
                    let _ = on_shape!(&others[*i], s => w.write_shape(s), Ok(()));
                }
                WCall::Fin | WCall::FinRetry => {
                    w.finalize()?;
                    let disk = std::fs::read(&shp_path).unwrap_or_default();
                    match decode(&disk) {
                        Err(e) => bad.push(format!("after a finalize the .shp on disk is rejected by the strict decoder: {}", e)),
                        Ok(d) => {
                            if d.recs.len() != so_far.len() || d.recs.iter().zip(so_far.iter()).any(|(r, i)| diff(&geoms[*i], &r.geom, ty == 31, true).is_some()) {
                                bad.push(format!("after a finalize the .shp on disk holds {} records, {} shapes were written", d.recs.len(), so_far.len()));
                            } else if let Err(e) = check_index(&disk, &std::fs::read(&shx_path).unwrap_or_default(), &d) {
                                bad.push(format!("after a finalize the .shx on disk is inconsistent: {}", e));
                            }
                        }
                    }
                }
                _ => {}
            }
        }
        match &p.ending {
            Ending::Drop | Ending::PanicUnwind => {}
            Ending::FinDrop => w.finalize()?,
            Ending::WriteShapes(l) => {
                for i in l.iter().filter(|i| **i < shapes.len()) {
                    on_shape!(&shapes[*i], s => w.write_shape(s)?, ());
                }
            }
        }
        Ok(())
    });
    ctx.stats.reach("path-route");
    match r {
        Err(pi) => ctx.fail("C09", "panic", pi.site(), format!("history {} by path: {}", pat, pi.text())),
        Ok(Err(e)) => ctx.fail("C09", "path-write", "from_path", format!("history {} by path failed: {:?}", pat, classify(&e))),
        Ok(Ok(())) => {
            for b in bad.iter().take(1) {
                ctx.fail("C09", "complete-after-finalize", format!("{}:path", hsite), format!("history {} by path over pre-existing files: {}", pat, b));
            }
            let disk_shp = std::fs::read(&shp_path).unwrap_or_default();
            let disk_shx = std::fs::read(&shx_path).unwrap_or_default();
            if disk_shp != mem_shp || disk_shx != mem_shx {
                ctx.fail("C09", "same-as-drop", format!("{}:path", hsite), format!("history {} by path over pre-existing files: final files differ from the in-memory ones ({} / {} bytes on disk, {} / {} in memory)", pat, disk_shp.len(), disk_shx.len(), mem_shp.len(), mem_shx.len()));
            }
        }
    }
    let _ = std::fs::remove_file(&shp_path);
    let _ = std::fs::remove_file(&shx_path);
}

fn first_diff(a: &[u8], b: &[u8]) -> Option<usize> {
    a.iter().zip(b.iter()).position(|(x, y)| x != y).or(if a.len() != b.len() { Some(a.len().min(b.len())) } else { None })
}

/// all sequences over {0: write a, 1: write b, 2: finalize} of length <= max_len
fn sequences(max_len: usize) -> Vec<Vec<u8>> {
    let mut out = vec![vec![]];
    let mut frontier = vec![vec![]];
    for _ in 0..max_len {
        let mut next = Vec::new();
        for s in &frontier {
            for c in 0..3u8 {
                let mut t: Vec<u8> = s.clone();
                t.push(c);
                next.push(t);
            }
        }
        out.extend(next.iter().cloned());
        frontier = next;
    }
    out
}

const STACKS: [StackCfg; 4] = [StackCfg::Direct, StackCfg::Buf(5), StackCfg::Buf(8192), StackCfg::WriteBack];

/// C09 sweep: unit = (type, with_shx, stack); all sequences up to `max_len`, three endings.
pub fn c09_sweep_unit(unit: u64, max_len: usize, ctx: &mut Ctx, ctl: &mut UnitCtl) {
    let ty = TYPES[(unit % 13) as usize];
    let with_shx = (unit / 13) % 2 == 0;
    let stack = STACKS[((unit / 26) % 4) as usize];
    let a = grid_spec(ty, 1, 2, 3);
    let b = grid_spec(ty, 2, 3, 50);
    // for the types with Z and M: the same histories (up to length 3) with shapes that lie exactly at
    // the origin, so that the running box after the writes is the all-zero box a header starts with
    if matches!(ty, 11 | 13 | 18) {
        let at_origin = |npts: usize, m_bits: u64| ShapeSpec { ty, parts: vec![Part { kind: -1, pts: vec![[0, 0, 0, m_bits]; npts] }], ctor: 0 };
        let (o1, o2) = if ty == 11 { (at_origin(1, 0), at_origin(1, NO_DATA_BITS)) } else { (at_origin(2, 0), at_origin(3, NO_DATA_BITS)) };
        for seq in sequences(max_len.min(3)) {
            for e in 0..2 {
                let calls: Vec<WCall> = seq.iter().map(|c| match c {
                    0 => WCall::W(0),
                    1 => WCall::W(1),
                    _ => WCall::Fin,
                }).collect();
                let scn = HwScn { w: WProg { shapes: vec![o1.clone(), o2.clone()], others: vec![], calls, ending: if e == 0 { Ending::Drop } else { Ending::FinDrop }, with_shx, stack }, wplan: Plan::default(), path: false, lent: false };
                if !ctl.before_case(|| Scenario::HistW(scn.clone())) {
                    continue;
                }
                ctx.stats.evaluations += 1;
                ctx.stats.reach("shapes-at-the-origin");
                execute(&scn, ctx);
                ctl.after_case(ctx, || Scenario::HistW(scn.clone()));
            }
        }
    }
    for seq in sequences(max_len) {
        for e in 0..4 {
            let calls: Vec<WCall> = seq.iter().map(|c| match c {
                0 => WCall::W(0),
                1 => WCall::W(1),
                _ => WCall::Fin,
            }).collect();
            let ending = match e {
                0 => Ending::Drop,
                1 => Ending::FinDrop,
                2 => Ending::PanicUnwind,
                _ => Ending::WriteShapes(vec![1, 0]),
            };
            let scn = HwScn { w: WProg { shapes: vec![a.clone(), b.clone()], others: vec![], calls, ending, with_shx, stack }, wplan: Plan::default(), path: with_shx && stack == StackCfg::Direct && seq.len() == 3, lent: false };
            if !ctl.before_case(|| Scenario::HistW(scn.clone())) {
                continue;
            }
            ctx.stats.evaluations += 1;
            execute(&scn, ctx);
            ctl.after_case(ctx, || Scenario::HistW(scn.clone()));
            // the same history with destinations that are only lent to the writer
            if e == 0 && seq.len() <= 4 && matches!(stack, StackCfg::Buf(_)) {
                let mut scn3 = scn.clone();
                scn3.path = false;
                scn3.lent = true;
                if ctl.before_case(|| Scenario::HistW(scn3.clone())) {
                    ctx.stats.evaluations += 1;
                    execute(&scn3, ctx);
                    ctl.after_case(ctx, || Scenario::HistW(scn3.clone()));
                }
            }
            // the same history on destinations that already hold 104 bytes of older content (a reused
            // buffer that is a little longer than a header), for the plain-drop and finalize-then-drop
            // endings of the histories up to length 4. Not more than 104: every record and every index
            // entry reaches beyond it, so that the end of the destination is the end of what was written
            // whenever a finalize looks for it (older content beyond the new file can neither be
            // removed by the writer nor lead to a well-formed file; C09 does not speak about it)
            if e < 2 && seq.len() <= 4 {
                let mut scn2 = scn.clone();
                scn2.path = false;
                scn2.wplan.dev[SHP].prefill = 104;
                scn2.wplan.dev[SHX].prefill = 104;
                if !ctl.before_case(|| Scenario::HistW(scn2.clone())) {
                    continue;
                }
                ctx.stats.evaluations += 1;
                execute(&scn2, ctx);
                ctl.after_case(ctx, || Scenario::HistW(scn2.clone()));
            }
        }
    }
}

/// C10 on long histories: a rejected write after every accepted one, far beyond any count a writer
/// may do something at (every 1000, every 2^16 records): unit 0 = 2100 records, unit 1 = 70000.
pub fn c10_long_unit(unit: u64, ctx: &mut Ctx, ctl: &mut UnitCtl) {
    let n = if unit == 0 { 2100usize } else { 70_000 };
    let (ty, oty) = if unit == 0 { (1, 3) } else { (11, 1) };
    let mut calls = Vec::with_capacity(2 * n);
    for _ in 0..n {
        calls.push(WCall::W(0));
        calls.push(WCall::Other(0));
    }
    let scn = HwScn { w: WProg { shapes: vec![grid_spec(ty, 1, 1, 3)], others: vec![grid_spec(oty, 1, 2, 7)], calls, ending: Ending::Drop, with_shx: true, stack: StackCfg::Buf(8192) }, wplan: Plan::default(), path: false, lent: false };
    if !ctl.before_case(|| Scenario::HistW(scn.clone())) {
        return;
    }
    ctx.stats.evaluations += 1;
    ctx.stats.reach("long-history-with-rejected-writes");
    execute(&scn, ctx);
    ctl.after_case(ctx, || Scenario::HistW(scn.clone()));
}

/// C10 sweep: unit = first type; all 12 offered types x histories x positions of the rejected call.
pub fn c10_sweep_unit(unit: u64, max_len: usize, ctx: &mut Ctx, ctl: &mut UnitCtl) {
    let ty = TYPES[(unit % 13) as usize];
    let a = grid_spec(ty, 1, 2, 3);
    let b = grid_spec(ty, 2, 3, 50);
    // histories over {w a, w b, f} that start with a write
    let hist: Vec<Vec<u8>> = sequences(max_len).into_iter().filter(|s| !s.is_empty() && s[0] != 2).collect();
    for off in TYPES.iter().filter(|t| **t != ty) {
        let other = grid_spec(*off, 1, 2, 7);
        for (hi, seq) in hist.iter().enumerate() {
            for pos in 1..=seq.len() {
                let mut calls: Vec<WCall> = seq.iter().map(|c| match c {
                    0 => WCall::W(0),
                    1 => WCall::W(1),
                    _ => WCall::Fin,
                }).collect();
                calls.insert(pos, WCall::Other(0));
                if hi % 3 == 0 && pos < calls.len() {
                    // two rejected calls in a row
                    calls.insert(pos, WCall::Other(0));
                }
                let with_shx = (hi + pos) % 2 == 0;
                let stack = STACKS[(hi + pos) % 3];
                let ending = match (hi + pos) % 3 {
                    0 => Ending::Drop,
                    1 => Ending::FinDrop,
                    _ => Ending::WriteShapes(vec![0]),
                };
                let scn = HwScn { w: WProg { shapes: vec![a.clone(), b.clone()], others: vec![other.clone()], calls, ending, with_shx, stack }, wplan: Plan::default(), path: false, lent: false };
                if !ctl.before_case(|| Scenario::HistW(scn.clone())) {
                    continue;
                }
                ctx.stats.evaluations += 1;
                execute(&scn, ctx);
                ctl.after_case(ctx, || Scenario::HistW(scn.clone()));
            }
        }
    }
}

/// Seeded longer histories with varying shapes, rejected writes, finalize anywhere.
pub fn generate(r: &mut Rng, focus: &str) -> HwScn {
    let ty = *r.pick(&TYPES);
    let mut k = ShapeKnobs::draw(r);
    if focus == "C05" {
        k.zm &= !F_NAN;
        k.xy |= F_INF | F_SENTINEL;
        k.zm |= F_INF | F_SENTINEL;
        if r.chance(1, 2) {
            k.zm &= !F_NODATA & !F_ANYFINITE & !F_SENTINEL;
            k.zm |= F_SMALLINT;
        }
    }
    let n = r.usize(1, 5);
    let shapes: Vec<ShapeSpec> = (0..n).map(|_| gen_spec(r, ty, &k)).collect();
    let mut others = vec![];
    let with_other = focus == "C10" || r.chance(1, 3);
    if with_other {
        for _ in 0..r.usize(1, 2) {
            let oty = loop {
                let t = *r.pick(&TYPES);
                if t != ty {
                    break t;
                }
            };
            others.push(gen_spec(r, oty, &ShapeKnobs::small()));
        }
    }
    let len = r.usize(1, 12);
    let mut calls = Vec::new();
    let mut wrote = false;
    for _ in 0..len {
        let c = r.below(10);
        if c < 5 || (!wrote && focus != "C09" && c < 8) {
            calls.push(WCall::W(r.usize(0, n - 1)));
            wrote = true;
        } else if c < 8 {
            calls.push(WCall::Fin);
        } else if wrote && !others.is_empty() {
            calls.push(WCall::Other(r.usize(0, others.len() - 1)));
        } else {
            calls.push(WCall::Fin);
        }
    }
    let ending = match r.below(5) {
        0 => Ending::FinDrop,
        1 => Ending::WriteShapes((0..r.usize(0, 3)).map(|_| r.usize(0, n - 1)).collect()),
        2 => Ending::PanicUnwind,
        _ => Ending::Drop,
    };
    // an Other call after the ending's implicit writes cannot occur; but Other before the first W can
    // if the history starts with finalizes only: make sure a W precedes the first Other
    if let Some(o) = calls.iter().position(|c| matches!(c, WCall::Other(_))) {
        if !calls[..o].iter().any(|c| matches!(c, WCall::W(_))) {
            calls.insert(o, WCall::W(0));
        }
    }
    let mut wplan = Plan::default();
    if r.chance(1, 3) {
        wplan.dev[SHP] = gen_devcfg(r, true);
        wplan.dev[SHX] = gen_devcfg(r, true);
    }
    let with_shx = r.chance(3, 4);
    HwScn { w: WProg { shapes, others, calls, ending, with_shx, stack: gen_stack(r) }, wplan, path: with_shx && r.chance(1, 24), lent: false }
}

// ---------------------------------------------------------------------------------------------
// C10 with a user-defined shape: `EsriShape` is a public trait, so a caller can offer a shape of
// another type that announces any size. The type check must come first whatever the size.

#[derive(Clone, Debug, Serialize, Deserialize)]
pub struct FakeOfferScn {
    /// type of the file (set by a first ordinary write)
    pub ty: i32,
    /// type code the user-defined shape claims: any of the 14 codes of `ShapeType`, NullShape (0)
    /// included - the crate has no null shape of its own that can be written, a caller can have one
    pub fake_code: i32,
    /// size in bytes it announces
    pub announced: u64,
    pub with_shx: bool,
}

struct Fake<const CODE: i32> {
    announced: usize,
}
impl<const CODE: i32> shapefile::HasShapeType for Fake<CODE> {
    fn shapetype() -> shapefile::ShapeType {
        shapefile::ShapeType::from(CODE).unwrap()
    }
}
impl<const CODE: i32> shapefile::record::WritableShape for Fake<CODE> {
    fn size_in_bytes(&self) -> usize {
        self.announced
    }
    fn write_to<T: std::io::Write>(&self, _dest: &mut T) -> Result<(), shapefile::Error> {
        Ok(())
    }
}
impl<const CODE: i32> shapefile::record::EsriShape for Fake<CODE> {
    fn x_range(&self) -> [f64; 2] {
        [-1e9, 1e9]
    }
    fn y_range(&self) -> [f64; 2] {
        [-1e9, 1e9]
    }
}

pub fn execute_fake(scn: &FakeOfferScn, ctx: &mut Ctx) {
    use crate::on_shape;
    if !TYPES.contains(&scn.ty) || !(scn.fake_code == 0 || TYPES.contains(&scn.fake_code)) || scn.fake_code == scn.ty {
        ctx.fail("HARNESS", "invalid-scenario", "fake", "bad fake offer".to_string());
        return;
    }
    let first = grid_spec(scn.ty, 1, 2, 3);
    let run_one = |offer: bool| -> Option<(Vec<u8>, Vec<u8>, Option<(CallRes, usize)>)> {
        let world = World::new(Plan::default());
        let shp = Stack::writer(&world, SHP, StackCfg::Direct);
        let mut w = if scn.with_shx { shapefile::ShapeWriter::with_shx(shp, Stack::writer(&world, SHX, StackCfg::Direct)) } else { shapefile::ShapeWriter::new(shp) };
        let sh = build_all(std::slice::from_ref(&first)).ok()?.remove(0);
        let r0 = guarded(|| on_shape!(&sh, s => w.write_shape(s), Ok(())));
        if !matches!(r0, Ok(Ok(()))) {
            return None;
        }
        let mut offered = None;
        if offer {
            let ev0 = world.borrow().log.len();
            let a = scn.announced as usize;
            let r = guarded(|| match scn.fake_code {
                0 => w.write_shape(&Fake::<0> { announced: a }),
                1 => w.write_shape(&Fake::<1> { announced: a }),
                3 => w.write_shape(&Fake::<3> { announced: a }),
                5 => w.write_shape(&Fake::<5> { announced: a }),
                8 => w.write_shape(&Fake::<8> { announced: a }),
                11 => w.write_shape(&Fake::<11> { announced: a }),
                13 => w.write_shape(&Fake::<13> { announced: a }),
                15 => w.write_shape(&Fake::<15> { announced: a }),
                18 => w.write_shape(&Fake::<18> { announced: a }),
                21 => w.write_shape(&Fake::<21> { announced: a }),
                23 => w.write_shape(&Fake::<23> { announced: a }),
                25 => w.write_shape(&Fake::<25> { announced: a }),
                28 => w.write_shape(&Fake::<28> { announced: a }),
                _ => w.write_shape(&Fake::<31> { announced: a }),
            });
            let res = match r {
                Ok(Ok(())) => CallRes::Ok,
                Ok(Err(e)) => CallRes::Err(classify(&e)),
                Err(p) => CallRes::Panic(p.msg, p.loc),
            };
            offered = Some((res, world.borrow().log.len() - ev0));
        }
        let _ = guarded(move || drop(w));
        let wb = world.borrow();
        Some((wb.data(SHP).to_vec(), wb.data(SHX).to_vec(), offered))
    };
    let (Some((shp_a, shx_a, Some((res, events)))), Some((shp_b, shx_b, _))) = (run_one(true), run_one(false)) else {
        ctx.fail("HARNESS", "invalid-scenario", "fake", "the first write failed".to_string());
        return;
    };
    ctx.stats.evaluations += 0;
    let want = CallRes::Err(RErr::Mismatch { requested: scn.ty, actual: scn.fake_code });
    let what = format!("a user-defined {} announcing {} bytes offered to a {} writer", type_name(scn.fake_code), scn.announced, type_name(scn.ty));
    if res != want {
        ctx.fail("C10", "rejected-error", format!("user-defined:{}", if scn.announced > i32::MAX as u64 { "huge" } else { "small" }), format!("{} returned {}", what, res.short()));
    }
    if events != 0 {
        ctx.fail("C10", "rejected-no-io", "user-defined", format!("{} caused {} device operations", what, events));
    }
    if shp_a != shp_b || shx_a != shx_b {
        ctx.fail("C10", "same-as-without-rejected", "user-defined", format!("{}: final files differ from those of the history without it", what));
    }
    ctx.stats.reach("user-defined-shape-offered");
    ctx.stats.distinct.insert(crate::prng::fnv_str(&format!("fake|{}|{}|{}|{}", scn.ty, scn.fake_code, scn.announced, scn.with_shx)));
}

pub fn fake_unit(unit: u64, ctx: &mut Ctx, ctl: &mut UnitCtl) {
    let ty = TYPES[(unit % 13) as usize];
    for fake_code in [0, 1, 3, 5, 8, 11, 13, 15, 18, 21, 23, 25, 28, 31] {
        if fake_code == ty {
            continue;
        }
        for announced in [0u64, 16, 1 << 20, (i32::MAX as u64) * 2 - 8, (i32::MAX as u64) * 2, 1 << 33, 1 << 40, u64::MAX / 4, u64::MAX - 4, u64::MAX] {
            for with_shx in [true, false] {
                let scn = FakeOfferScn { ty, fake_code, announced, with_shx };
                if !ctl.before_case(|| Scenario::FakeOffer(scn.clone())) {
                    continue;
                }
                ctx.stats.evaluations += 1;
                execute_fake(&scn, ctx);
                ctl.after_case(ctx, || Scenario::FakeOffer(scn.clone()));
            }
        }
    }
}

// ---------------------------------------------------------------------------------------------
// More user-defined shapes: one whose own serialisation fails half-way on its first attempt (C18),
// and one that emits 64 MiB so that a .shp grows beyond 2 GiB on a sparse sink (C09).

#[derive(Clone, Debug, Serialize, Deserialize)]
pub struct UserShapeScn {
    /// "late": a Point-typed shape whose write_to fails after emitting x the first time;
    /// "big": 33 polyline-typed shapes of 64 MiB each with a finalize after `fin_after` of them
    pub kind: String,
    #[serde(default)]
    pub fin_after: u32,
    /// fail the k-th operation of the intermediate finalize once (0 = never), "big" only
    #[serde(default)]
    pub fail_op: u64,
}

struct LatePoint {
    attempts: std::cell::Cell<u32>,
}
impl shapefile::HasShapeType for LatePoint {
    fn shapetype() -> shapefile::ShapeType {
        shapefile::ShapeType::Point
    }
}
impl shapefile::record::WritableShape for LatePoint {
    fn size_in_bytes(&self) -> usize {
        16
    }
    fn write_to<T: std::io::Write>(&self, dest: &mut T) -> Result<(), shapefile::Error> {
        let n = self.attempts.get();
        self.attempts.set(n + 1);
        dest.write_all(&7.0f64.to_le_bytes())?;
        if n == 0 {
            return Err(shapefile::Error::IoError(std::io::Error::other("the shape is not ready yet")));
        }
        dest.write_all(&8.0f64.to_le_bytes())?;
        Ok(())
    }
}
impl shapefile::record::EsriShape for LatePoint {
    fn x_range(&self) -> [f64; 2] {
        [7.0, 7.0]
    }
    fn y_range(&self) -> [f64; 2] {
        [8.0, 8.0]
    }
}

const BIG: usize = 64 << 20;
static ZEROS: [u8; 1 << 20] = [0; 1 << 20];
struct BigLine;
impl shapefile::HasShapeType for BigLine {
    fn shapetype() -> shapefile::ShapeType {
        shapefile::ShapeType::Polyline
    }
}
impl shapefile::record::WritableShape for BigLine {
    fn size_in_bytes(&self) -> usize {
        BIG
    }
    fn write_to<T: std::io::Write>(&self, dest: &mut T) -> Result<(), shapefile::Error> {
        for _ in 0..BIG / ZEROS.len() {
            dest.write_all(&ZEROS)?;
        }
        Ok(())
    }
}
impl shapefile::record::EsriShape for BigLine {
    fn x_range(&self) -> [f64; 2] {
        [0.0, 1.0]
    }
    fn y_range(&self) -> [f64; 2] {
        [0.0, 1.0]
    }
}

/// A point-typed user shape that keeps its contract but emits its 16 bytes through
/// `Write::write_vectored` (two slices, partial counts honoured).
struct VecPoint(f64, f64);
impl shapefile::HasShapeType for VecPoint {
    fn shapetype() -> shapefile::ShapeType {
        shapefile::ShapeType::Point
    }
}
impl shapefile::record::WritableShape for VecPoint {
    fn size_in_bytes(&self) -> usize {
        16
    }
    fn write_to<T: std::io::Write>(&self, dest: &mut T) -> Result<(), shapefile::Error> {
        let mut bytes = [0u8; 16];
        bytes[..8].copy_from_slice(&self.0.to_le_bytes());
        bytes[8..].copy_from_slice(&self.1.to_le_bytes());
        let mut done = 0usize;
        while done < 16 {
            let (a, b) = if done < 8 { (&bytes[done..8], &bytes[8..]) } else { (&bytes[done..], &bytes[16..]) };
            let n = dest.write_vectored(&[std::io::IoSlice::new(a), std::io::IoSlice::new(b)])?;
            if n == 0 {
                return Err(std::io::Error::from(std::io::ErrorKind::WriteZero).into());
            }
            done += n;
        }
        Ok(())
    }
}
impl shapefile::record::EsriShape for VecPoint {
    fn x_range(&self) -> [f64; 2] {
        [self.0, self.0]
    }
    fn y_range(&self) -> [f64; 2] {
        [self.1, self.1]
    }
}

/// A lazy iterator over one borrowed shape that announces `lower` further items (an honest lower
/// bound: it would yield them) and gives up, loudly, should anybody really ask for more than a few.
struct ManyOf<'a, S> {
    shape: &'a S,
    lower: usize,
    upper: Option<usize>,
    yielded: usize,
}
impl<'a, S> Iterator for ManyOf<'a, S> {
    type Item = &'a S;
    fn next(&mut self) -> Option<&'a S> {
        self.yielded += 1;
        if self.yielded > 4 {
            panic!("shpsim: the bulk call went on after a shape it had to reject");
        }
        Some(self.shape)
    }
    fn size_hint(&self) -> (usize, Option<usize>) {
        (self.lower, self.upper)
    }
}

/// A polyline-typed user shape that honestly announces and emits `.0` bytes (of 0x11).
struct SizedLine(usize);
impl shapefile::HasShapeType for SizedLine {
    fn shapetype() -> shapefile::ShapeType {
        shapefile::ShapeType::Polyline
    }
}
impl shapefile::record::WritableShape for SizedLine {
    fn size_in_bytes(&self) -> usize {
        self.0
    }
    fn write_to<T: std::io::Write>(&self, dest: &mut T) -> Result<(), shapefile::Error> {
        dest.write_all(&vec![0x11u8; self.0])?;
        Ok(())
    }
}
impl shapefile::record::EsriShape for SizedLine {
    fn x_range(&self) -> [f64; 2] {
        [0.0, 1.0]
    }
    fn y_range(&self) -> [f64; 2] {
        [0.0, 1.0]
    }
}

/// A polyline-typed user shape that honestly announces and emits `.0` MiB of zeros.
struct HugeLine(usize);
impl shapefile::HasShapeType for HugeLine {
    fn shapetype() -> shapefile::ShapeType {
        shapefile::ShapeType::Polyline
    }
}
impl shapefile::record::WritableShape for HugeLine {
    fn size_in_bytes(&self) -> usize {
        self.0 * ZEROS.len()
    }
    fn write_to<T: std::io::Write>(&self, dest: &mut T) -> Result<(), shapefile::Error> {
        for _ in 0..self.0 {
            dest.write_all(&ZEROS)?;
        }
        Ok(())
    }
}
impl shapefile::record::EsriShape for HugeLine {
    fn x_range(&self) -> [f64; 2] {
        [0.0, 1.0]
    }
    fn y_range(&self) -> [f64; 2] {
        [0.0, 1.0]
    }
}

/// A sink that keeps small writes and treats large all-zero writes as holes.
#[derive(Default, Clone, PartialEq)]
struct SparseSink {
    len: u64,
    pos: u64,
    small: std::collections::BTreeMap<u64, Vec<u8>>,
    ops: u64,
    fail_op: u64,
}
impl SparseSink {
    fn tick(&mut self) -> std::io::Result<()> {
        self.ops += 1;
        if self.fail_op != 0 && self.ops == self.fail_op {
            return Err(std::io::Error::other("simulated fault"));
        }
        Ok(())
    }
}
impl std::io::Write for SparseSink {
    fn write(&mut self, buf: &[u8]) -> std::io::Result<usize> {
        self.tick()?;
        if buf.len() <= 4096 {
            self.small.insert(self.pos, buf.to_vec());
        }
        self.pos += buf.len() as u64;
        self.len = self.len.max(self.pos);
        Ok(buf.len())
    }
    fn flush(&mut self) -> std::io::Result<()> {
        self.tick()
    }
}
impl std::io::Seek for SparseSink {
    fn seek(&mut self, to: std::io::SeekFrom) -> std::io::Result<u64> {
        self.tick()?;
        let t: i128 = match to {
            std::io::SeekFrom::Start(n) => n as i128,
            std::io::SeekFrom::End(d) => self.len as i128 + d as i128,
            std::io::SeekFrom::Current(d) => self.pos as i128 + d as i128,
        };
        if t < 0 || t > u64::MAX as i128 / 2 {
            return Err(std::io::Error::new(std::io::ErrorKind::InvalidInput, "invalid seek"));
        }
        self.pos = t as u64;
        Ok(self.pos)
    }
}

/// Shared handle on a sparse sink, so that the harness can arm a fault right before a finalize.
struct SinkH(std::rc::Rc<std::cell::RefCell<SparseSink>>);
impl std::io::Write for SinkH {
    fn write(&mut self, buf: &[u8]) -> std::io::Result<usize> {
        self.0.borrow_mut().write(buf)
    }
    fn flush(&mut self) -> std::io::Result<()> {
        self.0.borrow_mut().flush()
    }
}
impl std::io::Seek for SinkH {
    fn seek(&mut self, to: std::io::SeekFrom) -> std::io::Result<u64> {
        self.0.borrow_mut().seek(to)
    }
}

pub fn execute_user(scn: &UserShapeScn, ctx: &mut Ctx) {
    match scn.kind.as_str() {
        "late" => {
            let world = World::new(Plan::default());
            let mut w = shapefile::ShapeWriter::new(Stack::writer(&world, SHP, StackCfg::Direct));
            // bytes a call puts into the record area of the .shp device (Direct stack)
            let record_bytes = |from: usize| -> u64 { world.borrow().log[from..].iter().filter(|e| e.dev as usize == SHP && e.kind == OpKind::Write && e.pos >= 100).map(|e| e.moved as u64).sum() };
            let evs = || world.borrow().log.len();
            let late = LatePoint { attempts: std::cell::Cell::new(0) };
            let r = guarded(|| {
                let mut deltas = Vec::new();
                let e0 = evs();
                let r0 = w.write_shape(&shapefile::Point::new(1.0, 2.0));
                deltas.push((r0.is_ok(), record_bytes(e0)));
                let _ = w.write_shape(&late); // fails half-way by itself
                for s in 0..2 {
                    let e0 = evs();
                    let r = if s == 0 { w.write_shape(&late) } else { w.write_shape(&shapefile::Point::new(3.0, 4.0)) };
                    deltas.push((r.is_ok(), record_bytes(e0)));
                }
                deltas
            });
            match r {
                Err(p) => ctx.fail("C18", "panic", p.site(), p.text()),
                Ok(deltas) => {
                    for (i, (ok, d)) in deltas.iter().enumerate() {
                        if *ok && *d != 28 {
                            ctx.fail("C18", "bytes-at-seam", "user-defined-after-own-failure", format!("successful write #{} put {} bytes into the record area of the .shp for an announced size of 16 (+12)", i, d));
                        }
                        if !*ok {
                            ctx.fail("C18", "write-ok", "user-defined", format!("write #{} of the user-defined history failed", i));
                        }
                    }
                }
            }
            ctx.stats.reach("user-defined-shape-failing-by-itself");
        }
        "stderr-gone" => {
            // the process environment as a fault: the same binary is run as a child whose standard
            // error stream is a pipe without a reader (closed before the child is told to start), and
            // reports the verdicts of a small WFAULT sweep on its standard output
            use std::io::{Read, Write};
            use std::process::{Command, Stdio};
            let exe = std::env::current_exe().unwrap_or_default();
            let child = Command::new(exe).arg("stderr-gone-child").env("RUST_BACKTRACE", "0").stdin(Stdio::piped()).stdout(Stdio::piped()).stderr(Stdio::piped()).spawn();
            let mut child = match child {
                Ok(c) => c,
                Err(e) => {
                    ctx.fail("HARNESS", "spawn", "stderr-gone", format!("cannot start the child process: {}", e));
                    return;
                }
            };
            drop(child.stderr.take());
            if let Some(mut si) = child.stdin.take() {
                let _ = si.write_all(b"go\n");
            }
            let mut out = String::new();
            if let Some(mut so) = child.stdout.take() {
                let _ = so.read_to_string(&mut out);
            }
            let status = child.wait();
            match out.lines().find_map(|l| l.strip_prefix("F ")).map(serde_json::from_str::<Vec<Fail>>) {
                Some(Ok(fails)) => {
                    for f in fails {
                        ctx.fail(&f.prop, &f.clause, format!("stderr-gone:{}", f.site), format!("in a process whose standard error has lost its reader: {}", f.detail));
                    }
                    ctx.stats.reach("stderr-gone-child-reported");
                }
                _ => ctx.fail("C12", "panic", "stderr-gone:child-died", format!("the child process with a standard error stream without a reader ended without a report ({:?})", status.map(|s| s.code()))),
            }
        }
        "vectored" => {
            // a caller's shape that emits its bytes with write_vectored: the files are judged by the
            // strict decoder and the index check like any other (fin_after: finalize after that many)
            for with_shx in [true, false] {
                let world = World::new(Plan::default());
                let fin_after = scn.fin_after;
                let r = guarded(|| -> Result<(), String> {
                    let shp = Stack::writer(&world, SHP, StackCfg::Direct);
                    let mut w = if with_shx { shapefile::ShapeWriter::with_shx(shp, Stack::writer(&world, SHX, StackCfg::Direct)) } else { shapefile::ShapeWriter::new(shp) };
                    for i in 0..3u32 {
                        w.write_shape(&VecPoint(1.5 + i as f64, -2.25 * (i + 1) as f64)).map_err(|e| format!("write {}: {:?}", i, classify(&e)))?;
                        if fin_after == i + 1 {
                            w.finalize().map_err(|e| format!("finalize: {:?}", classify(&e)))?;
                        }
                    }
                    Ok(())
                });
                match r {
                    Err(p) => ctx.fail("C02", "panic", p.site(), p.text()),
                    Ok(Err(e)) => ctx.fail("C02", "write-ok", "user-vectored", e),
                    Ok(Ok(())) => {
                        let wb = world.borrow();
                        let geoms: Vec<Geom> = (0..3u32).map(|i| Geom { ty: 1, parts: vec![Part { kind: -1, pts: vec![[(1.5 + i as f64).to_bits(), (-2.25 * (i + 1) as f64).to_bits(), 0, 0]] }], bbox: None }).collect();
                        let refs: Vec<&Geom> = geoms.iter().collect();
                        let shx = wb.data(SHX).to_vec();
                        check_bytes(ctx, 1, wb.data(SHP), if with_shx { Some(&shx) } else { None }, &refs, "user-vectored");
                    }
                }
            }
            ctx.stats.reach("user-defined-shape-writing-vectored");
        }
        "bulk-lazy" => {
            // C10 for the consuming bulk call handed a lazy iterator that announces a huge (or endless)
            // number of shapes of another type: the first of them is rejected with the mismatch error
            // naming both types, and the files are what write + drop leaves
            let hints: [(usize, Option<usize>); 5] = [(usize::MAX, None), (1 << 40, Some(1 << 40)), (i32::MAX as usize + 1, None), (i32::MAX as usize, Some(usize::MAX)), (0, None)];
            let (lower, upper) = hints[(scn.fin_after as usize) % hints.len()];
            for with_shx in [true, false] {
                for swap in [false, true] {
                    let run = |bulk: bool| -> Result<(Option<RErr>, Vec<u8>, Vec<u8>), PanicInfo> {
                        guarded(move || {
                            let world = World::new(Plan::default());
                            let shp = Stack::writer(&world, SHP, StackCfg::Direct);
                            let mut w = if with_shx { shapefile::ShapeWriter::with_shx(shp, Stack::writer(&world, SHX, StackCfg::Direct)) } else { shapefile::ShapeWriter::new(shp) };
                            let point = shapefile::PointZ::new(1.0, 2.0, 3.0, 4.0);
                            let line = shapefile::Polyline::new(vec![shapefile::Point::new(0.0, 0.0), shapefile::Point::new(1.0, 1.0)]);
                            let mut err = None;
                            if swap {
                                let _ = w.write_shape(&line);
                                if bulk {
                                    err = w.write_shapes(ManyOf { shape: &point, lower, upper, yielded: 0 }).err().map(|e| classify(&e));
                                } else {
                                    drop(w);
                                }
                            } else {
                                let _ = w.write_shape(&point);
                                if bulk {
                                    err = w.write_shapes(ManyOf { shape: &line, lower, upper, yielded: 0 }).err().map(|e| classify(&e));
                                } else {
                                    drop(w);
                                }
                            }
                            let wb = world.borrow();
                            (err, wb.data(SHP).to_vec(), wb.data(SHX).to_vec())
                        })
                    };
                    let (file_ty, offered) = if swap { (3, 11) } else { (11, 3) };
                    let site = format!("bulk-lazy:{}<-{}", type_name(file_ty), type_name(offered));
                    match (run(true), run(false)) {
                        (Err(p), _) | (_, Err(p)) => ctx.fail("C10", "panic", p.site(), format!("write_shapes of a lazy iterator announcing {:?} shapes of type {} into a {} file: {}", (lower, upper), type_name(offered), type_name(file_ty), p.text())),
                        (Ok((err, shp, shx)), Ok((_, gshp, gshx))) => {
                            if err != Some(RErr::Mismatch { requested: file_ty, actual: offered }) {
                                ctx.fail("C10", "mismatch-error", site.clone(), format!("write_shapes of a lazy iterator announcing {:?} shapes of type {} into a {} file returned {:?}", (lower, upper), type_name(offered), type_name(file_ty), err));
                            }
                            if shp != gshp || shx != gshx {
                                ctx.fail("C10", "rejected-write-changes-nothing", site, format!("after the rejected bulk call the files differ from write + drop (.shp {} vs {} bytes, .shx {} vs {})", shp.len(), gshp.len(), shx.len(), gshx.len()));
                            }
                        }
                    }
                }
            }
            ctx.stats.reach("rejected-bulk-call-of-a-lazy-iterator");
        }
        "sized" => {
            // the size ladder of C09: a record of `fin_after` bytes (every even size in turn, so that
            // the file length a finalize sees takes every value of a range), a finalize, further
            // records, against the same records without the finalize; with and without an index
            let n = scn.fin_after as usize;
            for with_shx in [false, true] {
                for second in [16usize, n] {
                    let run = |fin: bool| -> Result<Result<(Vec<u8>, Vec<u8>), String>, PanicInfo> {
                        guarded(move || {
                            let world = World::new(Plan::default());
                            {
                                let shp = Stack::writer(&world, SHP, StackCfg::Direct);
                                let mut w = if with_shx { shapefile::ShapeWriter::with_shx(shp, Stack::writer(&world, SHX, StackCfg::Direct)) } else { shapefile::ShapeWriter::new(shp) };
                                w.write_shape(&SizedLine(n)).map_err(|e| format!("write: {:?}", classify(&e)))?;
                                if fin {
                                    w.finalize().map_err(|e| format!("finalize: {:?}", classify(&e)))?;
                                }
                                w.write_shape(&SizedLine(second)).map_err(|e| format!("write: {:?}", classify(&e)))?;
                                if fin {
                                    w.finalize().map_err(|e| format!("finalize: {:?}", classify(&e)))?;
                                }
                                w.write_shape(&SizedLine(n)).map_err(|e| format!("write: {:?}", classify(&e)))?;
                            }
                            let wb = world.borrow();
                            Ok((wb.data(SHP).to_vec(), wb.data(SHX).to_vec()))
                        })
                    };
                    match (run(true), run(false)) {
                        (Err(p), _) | (_, Err(p)) => ctx.fail("C09", "panic", p.site(), format!("records of {} / {} / {} bytes: {}", n, second, n, p.text())),
                        (Ok(Err(e)), _) | (_, Ok(Err(e))) => ctx.fail("C09", "write-ok", "size-ladder", format!("records of {} / {} / {} bytes: {}", n, second, n, e)),
                        (Ok(Ok(a)), Ok(Ok(b))) => {
                            if a != b {
                                ctx.fail("C09", "same-as-drop", "size-ladder", format!("a caller's shapes of {} / {} / {} bytes (index: {}) with a finalize after the first and the second: the files differ from write x3, drop (.shp {} vs {} bytes, .shx {} vs {})", n, second, n, with_shx, a.0.len(), b.0.len(), a.1.len(), b.1.len()));
                            }
                        }
                    }
                }
            }
            ctx.stats.reach("size-ladder");
        }
        "big" => {
            let run = |fin_after: u32, fail_op: u64| -> Result<Result<SparseSink, String>, PanicInfo> {
                guarded(move || {
                    let sink = std::rc::Rc::new(std::cell::RefCell::new(SparseSink::default()));
                    {
                        let mut w = shapefile::ShapeWriter::new(SinkH(sink.clone()));
                        for i in 0..33u32 {
                            w.write_shape(&BigLine).map_err(|e| format!("write {}: {:?}", i, classify(&e)))?;
                            if fin_after == i + 1 {
                                // the fault, if any, is the `fail_op`-th operation of this finalize
                                {
                                    let mut sk = sink.borrow_mut();
                                    sk.ops = 0;
                                    sk.fail_op = fail_op;
                                }
                                // retried while it fails (at most twice)
                                let mut tries = 0;
                                while let Err(e) = w.finalize() {
                                    tries += 1;
                                    if tries > 2 {
                                        return Err(format!("finalize: {:?}", classify(&e)));
                                    }
                                }
                                sink.borrow_mut().fail_op = 0;
                            }
                        }
                    }
                    let mut out = sink.borrow().clone();
                    out.ops = 0;
                    out.fail_op = 0;
                    out.pos = 0;
                    Ok(out)
                })
            };
            let a = run(scn.fin_after, scn.fail_op);
            let b = run(0, 0);
            match (a, b) {
                (Err(p), _) | (_, Err(p)) => ctx.fail("C09", "panic", format!("panic:big-file:{}", p.loc.rsplit('/').next().unwrap_or("").split(':').next().unwrap_or("")), format!("33 shapes of 64 MiB, finalize after {}: {}", scn.fin_after, p.text())),
                (Ok(Err(e)), _) | (_, Ok(Err(e))) => ctx.fail("C09", "write-ok", "big-file", format!("33 shapes of 64 MiB, finalize after {}: {}", scn.fin_after, e)),
                (Ok(Ok(a)), Ok(Ok(b))) => {
                    if a != b {
                        ctx.fail("C09", "same-as-drop", "big-file", format!("33 shapes of 64 MiB (a .shp of {} bytes) with a finalize after {} (fault at operation {}): the file differs from write x33, drop ({} vs {} bytes, {} vs {} small writes)", b.len, scn.fin_after, scn.fail_op, a.len, b.len, a.small.len(), b.small.len()));
                    }
                }
            }
            ctx.stats.reach("shp-beyond-2GiB-written");
        }
        "huge" => {
            // C18 for one record between 2 and 4 GiB (a size 32-bit words can still express): the
            // content length stored in the record header and in the index entry is (announced + 4) / 2
            let mib = scn.fin_after as usize;
            let r = guarded(move || -> Result<(SparseSink, SparseSink), String> {
                let shp = std::rc::Rc::new(std::cell::RefCell::new(SparseSink::default()));
                let shx = std::rc::Rc::new(std::cell::RefCell::new(SparseSink::default()));
                {
                    let mut w = shapefile::ShapeWriter::with_shx(SinkH(shp.clone()), SinkH(shx.clone()));
                    w.write_shape(&HugeLine(mib)).map_err(|e| format!("write: {:?}", classify(&e)))?;
                    w.finalize().map_err(|e| format!("finalize: {:?}", classify(&e)))?;
                }
                let out = (shp.borrow().clone(), shx.borrow().clone());
                Ok(out)
            });
            let announced = (mib as u64) << 20;
            let want_words = ((announced + 4) / 2) as i64;
            let be = |v: Option<&Vec<u8>>| v.filter(|b| b.len() == 4).map(|b| i32::from_be_bytes([b[0], b[1], b[2], b[3]]) as i64);
            match r {
                Err(p) => ctx.fail("C18", "panic", format!("panic:huge:{}", p.loc.rsplit('/').next().unwrap_or("").split(':').next().unwrap_or("")), format!("a user-defined shape of {} MiB: {}", mib, p.text())),
                Ok(Err(e)) => ctx.fail("C18", "write-ok", "huge", format!("a user-defined shape of {} MiB: {}", mib, e)),
                Ok(Ok((shp, shx))) => {
                    let stored = be(shp.small.get(&104));
                    if stored != Some(want_words) {
                        ctx.fail("C18", "content-length-field", "huge", format!("a shape announcing {} bytes: the record header stores {:?} content words, expected {}", announced, stored, want_words));
                    }
                    let entry = be(shx.small.get(&104));
                    if entry != Some(want_words) {
                        ctx.fail("C04", "index-bytes", "huge", format!("a shape announcing {} bytes: the index entry stores {:?} content words, expected {}", announced, entry, want_words));
                    }
                    if shp.len != 100 + 12 + announced {
                        ctx.fail("C18", "bytes-at-seam", "huge", format!("a shape announcing {} bytes: the .shp has {} bytes", announced, shp.len));
                    }
                }
            }
            ctx.stats.reach("record-beyond-2GiB-written");
        }
        "big-no-retry" => {
            // C12 beyond 2 GiB: a finalize that fails once at operation `fail_op` is NOT retried; the
            // caller goes on writing and lets the drop finalize. Once the destination works again the
            // files are completed as an undisturbed run would complete them.
            let run = |fin_after: u32, fail_op: u64| -> Result<Result<(SparseSink, bool), String>, PanicInfo> {
                guarded(move || {
                    let sink = std::rc::Rc::new(std::cell::RefCell::new(SparseSink::default()));
                    let mut failed = false;
                    {
                        let mut w = shapefile::ShapeWriter::new(SinkH(sink.clone()));
                        for i in 0..34u32 {
                            w.write_shape(&BigLine).map_err(|e| format!("write {}: {:?}", i, classify(&e)))?;
                            if fin_after == i + 1 {
                                {
                                    let mut sk = sink.borrow_mut();
                                    sk.ops = 0;
                                    sk.fail_op = fail_op;
                                }
                                failed = w.finalize().is_err();
                                sink.borrow_mut().fail_op = 0;
                            }
                        }
                    }
                    let mut out = sink.borrow().clone();
                    out.ops = 0;
                    out.fail_op = 0;
                    out.pos = 0;
                    Ok((out, failed))
                })
            };
            let a = run(scn.fin_after, scn.fail_op);
            let b = run(0, 0);
            match (a, b) {
                (Err(p), _) | (_, Err(p)) => ctx.fail("C12", "panic", format!("panic:big-file:{}", p.loc.rsplit('/').next().unwrap_or("").split(':').next().unwrap_or("")), format!("34 shapes of 64 MiB, finalize after {} failing at its operation {}, not retried: {}", scn.fin_after, scn.fail_op, p.text())),
                (Ok(Err(e)), _) | (_, Ok(Err(e))) => ctx.fail("C12", "write-after-failed-finalize", "big-file", format!("34 shapes of 64 MiB, finalize after {} failing at its operation {}: {}", scn.fin_after, scn.fail_op, e)),
                (Ok(Ok((a, failed))), Ok(Ok((b, _)))) => {
                    if failed {
                        ctx.stats.reach("big-file-finalize-failed-not-retried");
                    }
                    if a != b {
                        ctx.fail("C12", "golden-after-failed-finalize", "big-file", format!("34 shapes of 64 MiB with a finalize after {} that {} at its operation {} and was not retried: the file left by the drop differs from the undisturbed run ({} vs {} bytes, {} vs {} small writes)", scn.fin_after, if failed { "failed" } else { "did not fail" }, scn.fail_op, a.len, b.len, a.small.len(), b.small.len()));
                    }
                }
            }
            ctx.stats.reach("shp-beyond-2GiB-written");
        }
        _ => ctx.fail("HARNESS", "invalid-scenario", "user-shape", "unknown kind".to_string()),
    }
    ctx.stats.distinct.insert(crate::prng::fnv_str(&format!("user|{}|{}|{}", scn.kind, scn.fin_after, scn.fail_op)));
}

pub fn user_unit(unit: u64, ctx: &mut Ctx, ctl: &mut UnitCtl) {
    let scns: Vec<UserShapeScn> = match unit {
        0 => vec![UserShapeScn { kind: "late".into(), fin_after: 0, fail_op: 0 }],
        1 => vec![UserShapeScn { kind: "big".into(), fin_after: 32, fail_op: 0 }, UserShapeScn { kind: "big".into(), fin_after: 17, fail_op: 0 }],
        3 => (1..=6).map(|k| UserShapeScn { kind: "big-no-retry".into(), fin_after: [32, 33][(k % 2) as usize], fail_op: k }).collect(),
        // one record of 2 GiB - 1 MiB, 2 GiB, 3 GiB (the size in MiB travels in `fin_after`)
        4 => [2047u32, 2048, 3072].iter().map(|m| UserShapeScn { kind: "huge".into(), fin_after: *m, fail_op: 0 }).collect(),
        6 => vec![UserShapeScn { kind: "stderr-gone".into(), fin_after: 0, fail_op: 0 }],
        7 => (0..=3u32).map(|f| UserShapeScn { kind: "vectored".into(), fin_after: f, fail_op: 0 }).collect(),
        8 => (0..5u32).map(|f| UserShapeScn { kind: "bulk-lazy".into(), fin_after: f, fail_op: 0 }).collect(),
        // the size ladder: every even size from 4 to 4096 bytes (the size travels in `fin_after`)
        5 => (2..=2048u32).map(|h| UserShapeScn { kind: "sized".into(), fin_after: 2 * h, fail_op: 0 }).collect(),
        _ => {
            // a finalize beyond 2 GiB that fails once at each of its first operations
            (1..=17).map(|k| UserShapeScn { kind: "big".into(), fin_after: 32, fail_op: k }).collect()
        }
    };
    for scn in scns {
        if !ctl.before_case(|| Scenario::UserShape(scn.clone())) {
            continue;
        }
        ctx.stats.evaluations += 1;
        execute_user(&scn, ctx);
        ctl.after_case(ctx, || Scenario::UserShape(scn.clone()));
    }
}
