//! Seeded generation of floats, shapes and knobs. All PRNG use of the simulator is here and in
//! the per-family `generate` functions; nothing in `execute` draws random numbers.

use crate::geom::*;
use crate::prng::Rng;
use crate::world::{DevCfg, StackCfg};

/// Float classes (bit mask)
pub const F_SMALLINT: u32 = 1;
pub const F_DYADIC: u32 = 2;
pub const F_ANYFINITE: u32 = 4;
pub const F_ZERO: u32 = 8;
pub const F_SUBNORMAL: u32 = 16;
pub const F_INF: u32 = 32;
pub const F_SENTINEL: u32 = 64;
pub const F_NODATA: u32 = 128;
pub const F_NAN: u32 = 256;

pub const F_EXACT: u32 = F_SMALLINT | F_DYADIC;
pub const F_ALL_XY: u32 = 0xFF;
pub const F_ALL_ZM: u32 = 0x1FF;

fn next_up(x: f64) -> f64 {
    let b = x.to_bits();
    if x > 0.0 {
        f64::from_bits(b + 1)
    } else if x < 0.0 {
        f64::from_bits(b - 1)
    } else {
        f64::from_bits(1)
    }
}
fn next_down(x: f64) -> f64 {
    -next_up(-x)
}

pub fn gen_f64(r: &mut Rng, classes: u32) -> u64 {
    let avail: Vec<u32> = (0..9).map(|i| 1u32 << i).filter(|c| classes & c != 0).collect();
    let c = if avail.is_empty() { F_SMALLINT } else { *r.pick(&avail) };
    let v: f64 = match c {
        F_SMALLINT => r.range(-20, 20) as f64,
        F_DYADIC => r.range(-(1 << 20) + 1, (1 << 20) - 1) as f64 / 8.0,
        F_ANYFINITE => loop {
            let f = f64::from_bits(r.next());
            if f.is_finite() {
                break f;
            }
        },
        F_ZERO => {
            if r.chance(1, 2) {
                0.0
            } else {
                -0.0
            }
        }
        F_SUBNORMAL => {
            let f = f64::from_bits(r.below(1 << 52).max(1));
            if r.chance(1, 2) {
                f
            } else {
                -f
            }
        }
        F_INF => {
            if r.chance(1, 2) {
                f64::INFINITY
            } else {
                f64::NEG_INFINITY
            }
        }
        F_SENTINEL => *r.pick(&[
            f64::MAX,
            f64::MIN,
            next_down(f64::MAX),
            next_up(f64::MIN),
            f64::MIN_POSITIVE,
            -f64::MIN_POSITIVE,
            1e308,
            -1e308,
        ]),
        F_NODATA => {
            let nd = f64::from_bits(NO_DATA_BITS);
            *r.pick(&[nd, next_up(nd), next_down(nd), -1e38, -1e39, -1e40, -2e38, f64::MIN])
        }
        _ => {
            // NaN with assorted payloads
            let payload = r.below(1 << 51) | 1;
            let sign = if r.chance(1, 2) { 1u64 << 63 } else { 0 };
            let quiet = if r.chance(1, 2) { 1u64 << 51 } else { 0 };
            f64::from_bits(sign | 0x7FF0_0000_0000_0000 | quiet | payload)
        }
    };
    v.to_bits()
}

#[derive(Clone, Debug)]
pub struct ShapeKnobs {
    pub xy: u32,
    pub zm: u32,
    pub max_parts: usize,
    pub max_pts: usize,
}

impl ShapeKnobs {
    pub fn draw(r: &mut Rng) -> ShapeKnobs {
        // swarm: each run enables a random subset of float classes
        let mut xy = 0;
        let mut zm = 0;
        for i in 0..8 {
            if r.chance(2, 5) {
                xy |= 1 << i;
            }
        }
        for i in 0..9 {
            if r.chance(2, 5) {
                zm |= 1 << i;
            }
        }
        if xy == 0 {
            xy = F_SMALLINT;
        }
        if zm == 0 {
            zm = F_SMALLINT;
        }
        if r.chance(1, 3) {
            xy = F_EXACT;
        }
        let max_parts = if r.chance(1, 20) { 12 } else { r.usize(1, 5) };
        let max_pts = if r.chance(1, 40) { 200 } else { r.usize(1, 9) };
        ShapeKnobs { xy, zm, max_parts, max_pts }
    }
    pub fn small() -> ShapeKnobs {
        ShapeKnobs { xy: F_SMALLINT, zm: F_SMALLINT, max_parts: 3, max_pts: 4 }
    }
}

pub fn gen_vertex(r: &mut Rng, ty: i32, k: &ShapeKnobs) -> V {
    let mut v: V = [gen_f64(r, k.xy), gen_f64(r, k.xy), 0, 0];
    if has_z(ty) {
        v[2] = gen_f64(r, k.zm);
    }
    if has_m(ty) {
        v[3] = gen_f64(r, k.zm);
    }
    v
}

/// A shape spec that respects the public constructors' preconditions.
pub fn gen_spec(r: &mut Rng, ty: i32, k: &ShapeKnobs) -> ShapeSpec {
    if is_point(ty) {
        return ShapeSpec { ty, parts: vec![Part { kind: -1, pts: vec![gen_vertex(r, ty, k)] }], ctor: 0 };
    }
    let nparts = if is_multipoint(ty) { 1 } else { r.usize(1, k.max_parts) };
    let min_pts = if is_polyline(ty) { 2 } else { 1 };
    let mut parts = Vec::new();
    for _ in 0..nparts {
        let n = r.usize(min_pts, k.max_pts.max(min_pts));
        let mut pts: Vec<V> = (0..n).map(|_| gen_vertex(r, ty, k)).collect();
        let kind = if is_polygon(ty) {
            r.below(2) as i32
        } else if ty == 31 {
            r.below(6) as i32
        } else {
            -1
        };
        // rings: sometimes already closed
        if (is_polygon(ty) || (ty == 31 && kind >= 2)) && n >= 2 && r.chance(1, 2) {
            let first = pts[0];
            pts.push(first);
        }
        parts.push(Part { kind, pts });
    }
    // a quarter of the shapes reach the writer as a clone, or as a buffer refilled by clone_from
    let ctor = (r.below(3) + if r.chance(1, 4) { 3 * (1 + r.below(2)) } else { 0 }) as u8;
    ShapeSpec { ty, parts, ctor }
}

/// Put a unique tag into the first x coordinate so that each shape read back is attributable
/// to exactly one shape written.
pub fn tag_spec(s: &mut ShapeSpec, tag: usize) {
    let x = (1000 + tag) as f64;
    // keep closed rings closed: if the last vertex equals the first, change both
    for p in s.parts.iter_mut().take(1) {
        let n = p.pts.len();
        let closed = n >= 2 && p.pts[0] == p.pts[n - 1];
        p.pts[0][0] = x.to_bits();
        if closed {
            p.pts[n - 1][0] = x.to_bits();
        }
    }
}

/// A dense deterministic spec: `nparts` parts of `npts` points, small distinct integers.
pub fn grid_spec(ty: i32, nparts: usize, npts: usize, salt: usize) -> ShapeSpec {
    if is_point(ty) {
        let v: V = [(salt as f64).to_bits(), 2f64.to_bits(), if has_z(ty) { 3f64.to_bits() } else { 0 }, if has_m(ty) { 4f64.to_bits() } else { 0 }];
        return ShapeSpec { ty, parts: vec![Part { kind: -1, pts: vec![v] }], ctor: 0 };
    }
    let mut parts = Vec::new();
    let mut c = salt;
    for pi in 0..nparts {
        let mut pts = Vec::new();
        for j in 0..npts {
            c += 1;
            // a zig-zag so polygon rings have non-zero area when npts >= 3
            let x = (c % 97) as f64 + (j * j) as f64;
            let y = ((c * 7) % 89) as f64 + j as f64;
            pts.push([
                x.to_bits(),
                y.to_bits(),
                if has_z(ty) { ((c % 13) as f64).to_bits() } else { 0 },
                if has_m(ty) { ((c % 11) as f64 + 0.5).to_bits() } else { 0 },
            ]);
        }
        let kind = if is_polygon(ty) {
            (pi % 2) as i32
        } else if ty == 31 {
            (pi % 6) as i32
        } else {
            -1
        };
        parts.push(Part { kind, pts });
    }
    ShapeSpec { ty, parts, ctor: 1 }
}

pub const CHUNK_SIZES: [u32; 9] = [1, 2, 3, 5, 7, 8, 13, 64, 0];

pub fn gen_devcfg(r: &mut Rng, allow_eintr: bool) -> DevCfg {
    let mut d = DevCfg::default();
    if r.chance(1, 2) {
        let n = r.usize(1, 8);
        d.chunks = (0..n).map(|_| *r.pick(&CHUNK_SIZES)).collect();
    }
    if allow_eintr && r.chance(1, 4) {
        let period = r.range(2, 6) as u32;
        d.eintr = Some((period, r.below(period as u64) as u32));
    }
    d
}

pub fn gen_stack(r: &mut Rng) -> StackCfg {
    if r.chance(1, 10) {
        return StackCfg::WriteBack;
    }
    match r.below(4) {
        0 | 1 => StackCfg::Direct,
        2 => StackCfg::Buf(*r.pick(&[1u32, 2, 3, 5, 7, 8, 16, 33, 64, 100, 128])),
        _ => StackCfg::Buf(*r.pick(&[512u32, 4096, 8192])),
    }
}
