//! Interpreter of writer programs against the real `ShapeWriter<Stack>`: every public call is
//! bracketed with the range of device events it caused (`Mark`).

use crate::core::*;
use crate::geom::*;
use crate::world::*;
use crate::{on_shape, on_type};
use serde::{Deserialize, Serialize};
use shapefile::record::WritableShape;
use shapefile::{Shape, ShapeWriter};

#[derive(Clone, Debug, PartialEq, Eq, Hash, Serialize, Deserialize)]
pub enum WCall {
    /// write_shape(shapes[i])
    W(usize),
    /// write_shape(others[i]) - a shape of another type, expected to be rejected
    Other(usize),
    /// finalize()
    Fin,
    /// finalize(); while it returns Err, finalize() again immediately (at most 3 more times)
    FinRetry,
}

#[derive(Clone, Debug, PartialEq, Eq, Hash, Serialize, Deserialize)]
pub enum Ending {
    Drop,
    FinDrop,
    /// writer.write_shapes(&[shapes[i]...]) (consumes the writer)
    WriteShapes(Vec<usize>),
    /// the caller panics while it holds the writer: the writer is dropped by the unwinding
    PanicUnwind,
}

#[derive(Clone, Debug, Serialize, Deserialize)]
pub struct WProg {
    pub shapes: Vec<ShapeSpec>,
    #[serde(default)]
    pub others: Vec<ShapeSpec>,
    pub calls: Vec<WCall>,
    pub ending: Ending,
    pub with_shx: bool,
    pub stack: StackCfg,
}

#[derive(Clone, Debug, PartialEq)]
pub enum CallRes {
    Ok,
    Err(RErr),
    Panic(String, String),
}

impl CallRes {
    pub fn is_ok(&self) -> bool {
        matches!(self, CallRes::Ok)
    }
    pub fn short(&self) -> String {
        match self {
            CallRes::Ok => "Ok".into(),
            CallRes::Err(e) => format!("Err({:?})", e),
            CallRes::Panic(m, l) => format!("PANIC({} @ {})", m, l),
        }
    }
}

#[derive(Clone, Debug)]
pub struct Mark {
    pub call: String,
    /// index into prog.calls, or usize::MAX for the ending / drop
    pub call_no: usize,
    pub first_ev: usize,
    pub end_ev: usize,
    pub res: CallRes,
    /// bytes handed to the .shp destination during the call (above any buffer)
    pub offered_shp: u64,
    /// size_in_bytes() of the shape offered, for write calls
    pub announced: Option<usize>,
    /// a retry of a failed finalize
    pub is_retry: bool,
    /// device content (shp, shx) right after a finalize call returned
    pub snap: Option<(Vec<u8>, Vec<u8>)>,
}

pub struct WRun {
    pub marks: Vec<Mark>,
    /// indices (into prog.shapes) of the shapes whose write call returned Ok, in order
    pub written: Vec<usize>,
    /// geometry handed to the writer, captured through the public accessors after construction
    pub geoms: Vec<Geom>,
    /// a constructor panicked (generator bug or precondition) - the run is void
    pub build_panic: Option<String>,
}

fn res_of(r: Result<Result<(), shapefile::Error>, PanicInfo>) -> CallRes {
    match r {
        Ok(Ok(())) => CallRes::Ok,
        Ok(Err(e)) => CallRes::Err(classify(&e)),
        Err(p) => CallRes::Panic(p.msg, p.loc),
    }
}

fn offered() -> u64 {
    OFFERED_SHP.with(|c| c.get())
}

pub fn build_all(specs: &[ShapeSpec]) -> Result<Vec<Shape>, String> {
    let mut v = Vec::new();
    for s in specs {
        if !spec_ok(s) {
            return Err(format!("spec violates constructor preconditions: {:?}", s));
        }
        match guarded(|| build(s)) {
            Ok(sh) => v.push(sh),
            Err(p) => return Err(p.text()),
        }
    }
    Ok(v)
}

/// Run `prog` against the real ShapeWriter on the devices of `world`.
pub fn run_writer(world: &WorldRef, prog: &WProg) -> WRun {
    let mut run = WRun { marks: vec![], written: vec![], geoms: vec![], build_panic: None };
    let shapes = match build_all(&prog.shapes) {
        Ok(s) => s,
        Err(e) => {
            run.build_panic = Some(e);
            return run;
        }
    };
    let others = match build_all(&prog.others) {
        Ok(s) => s,
        Err(e) => {
            run.build_panic = Some(e);
            return run;
        }
    };
    run.geoms = shapes.iter().map(capture).collect();

    let shp = Stack::writer(world, SHP, prog.stack);
    let mut writer = if prog.with_shx {
        ShapeWriter::with_shx(shp, Stack::writer(world, SHX, prog.stack))
    } else {
        ShapeWriter::new(shp)
    };
    let evs = |w: &WorldRef| w.borrow().log.len();
    let mut poisoned = false;

    for (ci, call) in prog.calls.iter().enumerate() {
        // robustness for minimised scenarios: skip calls whose shape no longer exists
        match call {
            WCall::W(i) if *i >= shapes.len() => continue,
            WCall::Other(i) if *i >= others.len() => continue,
            _ => {}
        }
        let first = evs(world);
        let off0 = offered();
        let (name, res, announced) = match call {
            WCall::W(i) => {
                let sh = &shapes[*i];
                let ann = on_shape!(sh, s => Some(s.size_in_bytes()), None);
                let r = guarded(|| on_shape!(sh, s => writer.write_shape(s), Ok(())));
                (format!("write({})", i), res_of(r), ann)
            }
            WCall::Other(i) => {
                let sh = &others[*i];
                let ann = on_shape!(sh, s => Some(s.size_in_bytes()), None);
                let r = guarded(|| on_shape!(sh, s => writer.write_shape(s), Ok(())));
                (format!("write-other({})", i), res_of(r), ann)
            }
            WCall::Fin | WCall::FinRetry => {
                let r = guarded(|| writer.finalize());
                ("finalize".to_string(), res_of(r), None)
            }
        };
        let ok = res.is_ok();
        let panicked = matches!(res, CallRes::Panic(..));
        run.marks.push(Mark {
            call: name,
            call_no: ci,
            first_ev: first,
            end_ev: evs(world),
            res,
            offered_shp: offered() - off0,
            announced,
            is_retry: false,
            snap: None,
        });
        if let (WCall::W(i), true) = (call, ok) {
            run.written.push(*i);
        }
        if matches!(call, WCall::Fin | WCall::FinRetry) {
            let w = world.borrow();
            run.marks.last_mut().unwrap().snap = Some((w.data(SHP).to_vec(), w.data(SHX).to_vec()));
        }
        let mut attempts_left = if let (WCall::FinRetry, false, false) = (call, ok, panicked) { 3 } else { 0 };
        while attempts_left > 0 {
            attempts_left -= 1;
            let first = evs(world);
            let off0 = offered();
            let r = guarded(|| writer.finalize());
            let res = res_of(r);
            let retry_ok = res.is_ok();
            let retry_panicked = matches!(res, CallRes::Panic(..));
            run.marks.push(Mark {
                call: "finalize".into(),
                call_no: ci,
                first_ev: first,
                end_ev: evs(world),
                res,
                offered_shp: offered() - off0,
                announced: None,
                is_retry: true,
                snap: None,
            });
            let w = world.borrow();
            run.marks.last_mut().unwrap().snap = Some((w.data(SHP).to_vec(), w.data(SHX).to_vec()));
            if retry_ok || retry_panicked {
                break;
            }
        }
        if panicked {
            poisoned = true;
            break;
        }
    }

    // the ending
    if !poisoned {
        match &prog.ending {
            Ending::Drop | Ending::PanicUnwind => {}
            Ending::FinDrop => {
                let first = evs(world);
                let r = guarded(|| writer.finalize());
                run.marks.push(Mark {
                    call: "finalize".into(),
                    call_no: usize::MAX,
                    first_ev: first,
                    end_ev: evs(world),
                    res: res_of(r),
                    offered_shp: 0,
                    announced: None,
                    is_retry: false,
                    snap: None,
                });
                let w = world.borrow();
                run.marks.last_mut().unwrap().snap = Some((w.data(SHP).to_vec(), w.data(SHX).to_vec()));
            }
            Ending::WriteShapes(list) => {
                let first = evs(world);
                let ty = prog.shapes.first().map(|s| s.ty).unwrap_or(1);
                let r = on_type!(ty, S => {
                    let mut v: Vec<S> = Vec::new();
                    for i in list.iter().filter(|i| **i < prog.shapes.len()) {
                        // rebuild: Shape has no Clone
                        if let Ok(s) = S::try_from(build(&prog.shapes[*i])) { v.push(s); }
                    }
                    // handed over as a Vec, or (for lists of even length) through a lazy iterator that
                    // cannot tell how many shapes it will yield (size_hint().0 == 0)
                    if list.len() % 2 == 0 {
                        guarded(move || writer.write_shapes(v.iter().filter(|_| true)))
                    } else {
                        guarded(move || writer.write_shapes(&v))
                    }
                }, Ok(Ok(())));
                let res = res_of(r);
                if res.is_ok() {
                    run.written.extend(list.iter().copied().filter(|i| *i < prog.shapes.len()));
                }
                run.marks.push(Mark {
                    call: "write_shapes".into(),
                    call_no: usize::MAX,
                    first_ev: first,
                    end_ev: evs(world),
                    res,
                    offered_shp: 0,
                    announced: None,
                    is_retry: false,
                    snap: None,
                });
                return run;
            }
        }
    }
    let first = evs(world);
    let unwinding = !poisoned && prog.ending == Ending::PanicUnwind;
    let r = if unwinding {
        // the writer is moved into a frame that panics: Drop runs while the thread is panicking
        match guarded(move || {
            let _held = writer;
            panic!("shpsim: the caller panics while holding the writer");
        }) {
            Err(p) if p.msg.starts_with("shpsim: the caller panics") => Ok(()),
            Err(p) => Err(p),
            Ok(()) => Ok(()),
        }
    } else {
        guarded(move || drop(writer))
    };
    run.marks.push(Mark {
        call: "drop".into(),
        call_no: usize::MAX,
        first_ev: first,
        end_ev: evs(world),
        res: match r {
            Ok(()) => CallRes::Ok,
            Err(p) => CallRes::Panic(p.msg, p.loc),
        },
        offered_shp: 0,
        announced: None,
        is_retry: false,
        snap: None,
    });
    run
}

/// Pattern of a history, for fingerprints and distinct counting: e.g. "f;w;w;f;drop"
pub fn pattern(prog: &WProg) -> String {
    let mut s: Vec<String> = prog
        .calls
        .iter()
        .map(|c| match c {
            WCall::W(_) => "w".to_string(),
            WCall::Other(_) => "x".to_string(),
            WCall::Fin => "f".to_string(),
            WCall::FinRetry => "F".to_string(),
        })
        .collect();
    s.push(match &prog.ending {
        Ending::Drop => "drop".into(),
        Ending::PanicUnwind => "unwind".into(),
        Ending::FinDrop => "f;drop".into(),
        Ending::WriteShapes(l) => format!("ws{}", l.len()),
    });
    s.join(";")
}
