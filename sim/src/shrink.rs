//! Minimisation on the scenario value (not on the seed): greedy structural passes over the
//! scenario's JSON tree; a candidate is kept only if it still deserialises, executes without a
//! harness error, and the same clause of the same property still fails with the same site.

use crate::core::*;
use crate::scn::*;
use serde_json::Value;

fn fails_same(v: &Value, fingerprint: &str, budget: &mut usize) -> bool {
    if *budget == 0 {
        return false;
    }
    *budget -= 1;
    let Ok(scn) = serde_json::from_value::<Scenario>(v.clone()) else { return false };
    let mut ctx = Ctx::new();
    let r = guarded(|| execute(&scn, &mut ctx));
    if r.is_err() {
        return false;
    }
    if ctx.fails.iter().any(|f| f.prop == "HARNESS") {
        return false;
    }
    ctx.fails.iter().any(|f| f.fingerprint() == fingerprint)
}

/// paths to every node, children before parents are visited later (we go outermost first)
fn paths(v: &Value, cur: &mut Vec<String>, out: &mut Vec<Vec<String>>) {
    out.push(cur.clone());
    match v {
        Value::Array(a) => {
            for (i, x) in a.iter().enumerate() {
                cur.push(i.to_string());
                paths(x, cur, out);
                cur.pop();
            }
        }
        Value::Object(o) => {
            for (k, x) in o.iter() {
                cur.push(k.clone());
                paths(x, cur, out);
                cur.pop();
            }
        }
        _ => {}
    }
}

fn get_mut<'a>(v: &'a mut Value, path: &[String]) -> Option<&'a mut Value> {
    let mut cur = v;
    for p in path {
        cur = match cur {
            Value::Array(a) => a.get_mut(p.parse::<usize>().ok()?)?,
            Value::Object(o) => o.get_mut(p)?,
            _ => return None,
        };
    }
    Some(cur)
}

fn candidates(node: &Value) -> Vec<Value> {
    let mut c = Vec::new();
    match node {
        Value::Array(a) => {
            if a.len() > 1 {
                c.push(Value::Array(vec![]));
                // halves
                c.push(Value::Array(a[..a.len() / 2].to_vec()));
                c.push(Value::Array(a[a.len() / 2..].to_vec()));
            }
            for i in (0..a.len()).rev() {
                let mut b = a.clone();
                b.remove(i);
                c.push(Value::Array(b));
            }
        }
        Value::Number(n) => {
            if let Some(u) = n.as_u64() {
                if u != 0 {
                    c.push(Value::from(0u64));
                    if u > 1 << 52 {
                        // a float bit pattern: try 1.0, 2.0, 3.0
                        for f in [1.0f64, 2.0, 3.0] {
                            if f.to_bits() != u {
                                c.push(Value::from(f.to_bits()));
                            }
                        }
                    } else if u > 1 {
                        c.push(Value::from(1u64));
                        c.push(Value::from(u / 2));
                        c.push(Value::from(u - 1));
                    }
                }
            }
        }
        Value::Bool(true) => c.push(Value::Bool(false)),
        Value::Object(o) => {
            // enum simplifications
            if o.len() == 1 && o.contains_key("Buf") {
                c.push(Value::String("Direct".into()));
            }
            if o.len() == 1 && (o.contains_key("WriteShapes")) {
                c.push(Value::String("Drop".into()));
            }
            if o.contains_key("chunks") && o.contains_key("eintr") {
                c.push(serde_json::json!({"chunks": [], "eintr": null, "capacity": null}));
            }
        }
        Value::String(s) => {
            if s == "FinDrop" {
                c.push(Value::String("Drop".into()));
            }
            if s == "FinRetry" {
                c.push(Value::String("Fin".into()));
            }
        }
        _ => {}
    }
    c
}

pub fn minimise(scn: &Scenario, fingerprint: &str, mut budget: usize) -> (Scenario, usize) {
    let mut best = serde_json::to_value(scn).unwrap();
    let start = budget;
    if !fails_same(&best, fingerprint, &mut budget) {
        return (scn.clone(), 0);
    }
    loop {
        let mut improved = false;
        let mut ps = Vec::new();
        paths(&best, &mut vec![], &mut ps);
        for p in ps {
            if budget == 0 {
                break;
            }
            let Some(node) = get_mut(&mut best, &p).map(|n| n.clone()) else { continue };
            for cand in candidates(&node) {
                let mut trial = best.clone();
                if let Some(slot) = get_mut(&mut trial, &p) {
                    *slot = cand;
                } else {
                    continue;
                }
                if fails_same(&trial, fingerprint, &mut budget) {
                    best = trial;
                    improved = true;
                    break;
                }
            }
        }
        if !improved || budget == 0 {
            break;
        }
    }
    let out = serde_json::from_value::<Scenario>(best).unwrap_or_else(|_| scn.clone());
    (out, start - budget)
}
