//! Minimisation on the scenario value (not on the seed): greedy structural passes over the
//! scenario's JSON tree; a candidate is kept only if it still deserialises, executes without a
//! harness error, and the same clause of the same property still fails with the same site.
//! Bounded by a number of executions and by wall-clock time; candidates are applied lazily so
//! that scenarios with thousands of shapes or calls cost no more memory than two copies.

use crate::core::*;
use crate::scn::*;
use serde_json::Value;
use std::time::{Duration, Instant};

struct Budget {
    execs: usize,
    deadline: Instant,
    used: usize,
}

impl Budget {
    fn left(&self) -> bool {
        self.execs > 0 && Instant::now() < self.deadline
    }
}

fn fails_same(v: &Value, fingerprint: &str, b: &mut Budget) -> bool {
    if !b.left() {
        return false;
    }
    b.execs -= 1;
    b.used += 1;
    let Ok(scn) = serde_json::from_value::<Scenario>(v.clone()) else { return false };
    let mut ctx = Ctx::new();
    let r = guarded(|| execute(&scn, &mut ctx));
    if r.is_err() {
        return false;
    }
    if ctx.fails.iter().any(|f| f.prop == "HARNESS") {
        return false;
    }
    ctx.fails.iter().any(|f| f.fingerprint() == fingerprint)
}

/// paths to every array / scalar node worth trying, outermost first; children of huge arrays
/// are only listed for their first few elements
fn paths(v: &Value, cur: &mut Vec<String>, out: &mut Vec<Vec<String>>, limit: usize) {
    if out.len() >= limit {
        return;
    }
    out.push(cur.clone());
    match v {
        Value::Array(a) => {
            for (i, x) in a.iter().enumerate().take(24) {
                cur.push(i.to_string());
                paths(x, cur, out, limit);
                cur.pop();
            }
        }
        Value::Object(o) => {
            for (k, x) in o.iter() {
                cur.push(k.clone());
                paths(x, cur, out, limit);
                cur.pop();
            }
        }
        _ => {}
    }
}

fn get<'a>(v: &'a Value, path: &[String]) -> Option<&'a Value> {
    let mut cur = v;
    for p in path {
        cur = match cur {
            Value::Array(a) => a.get(p.parse::<usize>().ok()?)?,
            Value::Object(o) => o.get(p)?,
            _ => return None,
        };
    }
    Some(cur)
}

fn get_mut<'a>(v: &'a mut Value, path: &[String]) -> Option<&'a mut Value> {
    let mut cur = v;
    for p in path {
        cur = match cur {
            Value::Array(a) => a.get_mut(p.parse::<usize>().ok()?)?,
            Value::Object(o) => o.get_mut(p)?,
            _ => return None,
        };
    }
    Some(cur)
}

/// scalar / enum replacements for one node
fn replacements(node: &Value) -> Vec<Value> {
    let mut c = Vec::new();
    match node {
        Value::Number(n) => {
            if let Some(u) = n.as_u64() {
                if u != 0 {
                    c.push(Value::from(0u64));
                    if u > 1 << 52 {
                        for f in [1.0f64, 2.0, 3.0] {
                            if f.to_bits() != u {
                                c.push(Value::from(f.to_bits()));
                            }
                        }
                    } else if u > 1 {
                        c.push(Value::from(1u64));
                        c.push(Value::from(u / 2));
                        c.push(Value::from(u - 1));
                    }
                }
            }
        }
        Value::Bool(true) => c.push(Value::Bool(false)),
        Value::Object(o) => {
            if o.len() == 1 && o.contains_key("Buf") {
                c.push(Value::String("Direct".into()));
            }
            if o.len() == 1 && o.contains_key("WriteShapes") {
                c.push(Value::String("Drop".into()));
            }
            if o.contains_key("chunks") && o.contains_key("eintr") {
                c.push(serde_json::json!({"chunks": [], "eintr": null, "capacity": null}));
            }
        }
        Value::String(s) => {
            if s == "FinDrop" {
                c.push(Value::String("Drop".into()));
            }
            if s == "FinRetry" {
                c.push(Value::String("Fin".into()));
            }
        }
        _ => {}
    }
    c
}

/// ddmin-style chunk removal on the array at `path`; returns true if anything was removed
fn shrink_array(best: &mut Value, path: &[String], fingerprint: &str, b: &mut Budget) -> bool {
    let mut improved = false;
    let Some(Value::Array(a)) = get(best, path) else { return false };
    let mut len = a.len();
    if len == 0 {
        return false;
    }
    let mut chunk = len;
    while b.left() {
        chunk = chunk.min(len).max(1);
        if chunk == 1 && len > 96 {
            break; // element-by-element only once the array is small
        }
        let mut start = 0;
        while start < len && b.left() {
            let end = (start + chunk).min(len);
            let mut trial = best.clone();
            if let Some(Value::Array(t)) = get_mut(&mut trial, path) {
                t.drain(start..end);
            } else {
                return improved;
            }
            if fails_same(&trial, fingerprint, b) {
                *best = trial;
                len -= end - start;
                improved = true;
                // the same `start` now addresses the next chunk
            } else {
                start = end;
            }
        }
        if chunk == 1 || len == 0 {
            break;
        }
        chunk /= 2;
    }
    improved
}

pub fn minimise(scn: &Scenario, fingerprint: &str, budget: usize, secs: u64) -> (Scenario, usize) {
    let mut best = serde_json::to_value(scn).unwrap();
    let mut b = Budget { execs: budget, deadline: Instant::now() + Duration::from_secs(secs), used: 0 };
    if !fails_same(&best, fingerprint, &mut b) {
        return (scn.clone(), 0);
    }
    loop {
        let mut improved = false;
        let mut ps = Vec::new();
        paths(&best, &mut vec![], &mut ps, 4000);
        for p in ps {
            if !b.left() {
                break;
            }
            let Some(node) = get(&best, &p) else { continue };
            if node.is_array() {
                if shrink_array(&mut best, &p, fingerprint, &mut b) {
                    improved = true;
                }
                continue;
            }
            for cand in replacements(node) {
                let mut trial = best.clone();
                if let Some(slot) = get_mut(&mut trial, &p) {
                    *slot = cand;
                } else {
                    continue;
                }
                if fails_same(&trial, fingerprint, &mut b) {
                    best = trial;
                    improved = true;
                    break;
                }
            }
        }
        if !improved || !b.left() {
            break;
        }
    }
    let out = serde_json::from_value::<Scenario>(best).unwrap_or_else(|_| scn.clone());
    (out, b.used)
}
