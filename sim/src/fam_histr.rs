//! Family HIST-R (C15): reader histories (S3 on the reader side) checked against a
//! nondeterministic reference model: a set of allowed "next record" positions per state.

use crate::core::*;
use crate::fam_rfault::{produce, ValidFile};
use crate::gen::*;
use crate::geom::*;
use crate::rd::diff_read;
use crate::scn::{Scenario, UnitCtl};
use crate::world::StackCfg;
use crate::wrun::*;
use serde::{Deserialize, Serialize};
use shapefile::dbase;
use shapefile::{Reader, ShapeReader};
use std::collections::BTreeSet;
use std::io::{BufReader, Cursor};

#[derive(Clone, Copy, Debug, PartialEq, Eq, Hash, Serialize, Deserialize)]
pub enum ROp {
    /// create an iterator and take up to j items (255 = drain)
    Iter(u8),
    Nth(u8),
    /// read_nth_shape_as::<another type>(i): a random access that fails with a type mismatch
    NthWrong(u8),
    /// create a typed iterator of another type and take one item (a type-mismatch error)
    IterWrong,
    /// create an iterator and call `Iterator::nth(j)` once (what `skip` and `step_by` call):
    /// j items are passed over, the next one is returned
    IterNth(u8),
    /// create an iterator and call `Iterator::last()`: everything is consumed, the last item returned
    IterLast,
    /// complete reader only: a pair iteration typed with a caller's row type that cannot represent
    /// the rows of this table (an honest conversion error), one item taken: the pair is consumed
    IterRowErr,
    /// take one item and leak the iterator (`std::mem::forget`): the reader's state is what it is
    /// when the iterator goes away, however it goes away
    IterForget,
    Seek(u8),
    Count,
    /// read_nth_shape_as::<a user-defined ReadableShape>(i) whose `read_from` panics after it has
    /// consumed the type code and 8 more bytes; the caller catches the panic and goes on using
    /// the reader (a random access that neither succeeds nor returns)
    NthPanic(u8),
}

/// A caller's own row type that reads the integer field of the table as a text field.
pub struct BadRow;
impl dbase::ReadableRecord for BadRow {
    fn read_using<S, M>(fi: &mut dbase::FieldIterator<S, M>) -> Result<Self, dbase::FieldIOError>
    where
        S: std::io::Read + std::io::Seek,
        M: std::io::Read + std::io::Seek,
    {
        let _ = fi.read_next_field_as::<String>()?;
        Ok(BadRow)
    }
}

/// A caller's own readable shape (the trait is public) that gives up by panicking.
struct Brittle;
impl shapefile::ReadableShape for Brittle {
    fn read_from<T: std::io::Read>(source: &mut T, _record_size: i32) -> Result<Self, shapefile::Error> {
        let mut b = [0u8; 12];
        source.read_exact(&mut b)?;
        panic!("the caller's shape type cannot represent this record");
    }
}

#[derive(Clone, Copy, Debug, PartialEq, Eq, Hash, Serialize, Deserialize)]
pub enum RKind {
    ShpIndex,
    ShpNoIndex,
    Full,
    /// the complete reader over a ShapeReader without index (the .shx is optional by path too)
    FullNoIndex,
    /// ShapeReader with its index, over a .shp source that cannot seek at all (a pipe, a FIFO: `Seek` by
    /// type only; every seek fails): reading one record after the other needs no seek
    ShpIndexNoSeek,
}

#[derive(Clone, Debug, Serialize, Deserialize)]
pub struct HrScn {
    /// type of the file's shapes
    pub ty: i32,
    /// number of records
    pub n: u8,
    /// records of pairwise different sizes (true) or all of the same size (false)
    pub varied: bool,
    pub kind: RKind,
    pub ops: Vec<ROp>,
    /// 0 = plain cursor, 1..=7 = a source handing out at most that many bytes per read call,
    /// else BufReader capacity
    pub rbuf: u32,
    /// physical layout of the .shp: 0 = as the writer left it; 1 = records in reverse physical
    /// order with filler between them; 2 = rotated order with filler that looks like a record
    /// header (the .shx still lists them in logical order); 3 = logical order, 4 bytes of slack behind
    /// every record which the index entry's length field includes
    #[serde(default)]
    pub layout: u8,
}

/// Re-lay out a valid file: same records, same index order, different physical order + filler.
pub fn relayout(f: &ValidFile, layout: u8) -> (Vec<u8>, Vec<u8>) {
    if layout == 0 {
        return (f.shp.clone(), f.shx.clone());
    }
    let n = f.bounds.len();
    if layout == 3 {
        // records in their order, each followed by 4 bytes of slack that the index entry's length
        // field counts as part of the record (a slot-based producer): the offsets are right, the
        // lengths of the index are not the records' own
        let mut shp = f.shp[..100].to_vec();
        let mut shx = f.shx[..100].to_vec();
        for i in 0..n {
            let rec = &f.shp[f.bounds[i].0..f.bounds[i].1];
            shx.extend_from_slice(&((shp.len() / 2) as i32).to_be_bytes());
            shx.extend_from_slice(&(((rec.len() - 8) / 2 + 2) as i32).to_be_bytes());
            shp.extend_from_slice(rec);
            shp.extend_from_slice(&[0xEE; 4]);
        }
        let words = (shp.len() / 2) as i32;
        shp[24..28].copy_from_slice(&words.to_be_bytes());
        return (shp, shx);
    }
    if layout == 4 {
        // the last record first, then the others in their order, nothing between them: consecutive
        // index entries are physically contiguous (no seek between them), and the last entry points
        // back to the start of the file
        let order: Vec<usize> = std::iter::once(n - 1).chain(0..n - 1).collect();
        let mut shp = f.shp[..100].to_vec();
        let mut offsets = vec![0usize; n];
        for &li in &order {
            offsets[li] = shp.len();
            shp.extend_from_slice(&f.shp[f.bounds[li].0..f.bounds[li].1]);
        }
        let words = (shp.len() / 2) as i32;
        shp[24..28].copy_from_slice(&words.to_be_bytes());
        let mut shx = f.shx[..100].to_vec();
        for i in 0..n {
            shx.extend_from_slice(&((offsets[i] / 2) as i32).to_be_bytes());
            shx.extend_from_slice(&(((f.bounds[i].1 - f.bounds[i].0 - 8) / 2) as i32).to_be_bytes());
        }
        return (shp, shx);
    }
    let order: Vec<usize> = if layout == 1 { (0..n).rev().collect() } else { (0..n).map(|i| (i + 1) % n).collect() };
    let mut body: Vec<u8> = Vec::new();
    let mut offsets = vec![0usize; n];
    for (k, &li) in order.iter().enumerate() {
        let filler: Vec<u8> = if layout == 1 {
            vec![0xEE; [0usize, 4, 10, 2][k % 4]]
        } else {
            let mut b = vec![0u8; 12 + 2 * (k % 3)];
            b[0..4].copy_from_slice(&1i32.to_be_bytes());
            b[4..8].copy_from_slice(&10i32.to_be_bytes());
            b[8..12].copy_from_slice(&f.shp[32..36]);
            b
        };
        body.extend_from_slice(&filler);
        offsets[li] = 100 + body.len();
        let start = body.len();
        body.extend_from_slice(&f.shp[f.bounds[li].0..f.bounds[li].1]);
        // arbitrary record numbers are legal (C03): number from 0 (layout 2) or all alike (layout 1)
        let number: i32 = if layout == 2 { li as i32 } else { 7 };
        body[start..start + 4].copy_from_slice(&number.to_be_bytes());
    }
    body.extend_from_slice(&[0xEE; 6]);
    let mut shp = f.shp[..100].to_vec();
    let words = ((100 + body.len()) / 2) as i32;
    shp[24..28].copy_from_slice(&words.to_be_bytes());
    shp.extend_from_slice(&body);
    let mut shx = f.shx[..100].to_vec();
    for i in 0..n {
        shx.extend_from_slice(&((offsets[i] / 2) as i32).to_be_bytes());
        shx.extend_from_slice(&(((f.bounds[i].1 - f.bounds[i].0 - 8) / 2) as i32).to_be_bytes());
    }
    (shp, shx)
}

pub fn file_for(ty: i32, n: usize, varied: bool) -> WProg {
    let shapes: Vec<ShapeSpec> = (0..n)
        .map(|i| {
            let mut s = if is_point(ty) { grid_spec(ty, 1, 1, i) } else { grid_spec(ty, 1, if varied { 2 + i } else { 3 }, 10 * i) };
            tag_spec(&mut s, i);
            s
        })
        .collect();
    WProg { calls: (0..n).map(WCall::W).collect(), shapes, others: vec![], ending: Ending::Drop, with_shx: true, stack: StackCfg::Direct }
}

pub fn make_dbf(n: usize) -> Vec<u8> {
    let mut cur = Cursor::new(Vec::<u8>::new());
    {
        let mut w = dbase::TableWriterBuilder::new().add_integer_field(dbase::FieldName::try_from("idx").unwrap()).build_with_dest(&mut cur);
        for i in 0..n {
            let mut rec = dbase::Record::default();
            rec.insert("idx".to_string(), dbase::FieldValue::Integer(i as i32));
            let _ = w.write_record(&rec);
        }
        let _ = w.finalize();
    }
    cur.into_inner()
}

enum Src {
    Plain(Cursor<Vec<u8>>),
    Buf(BufReader<Cursor<Vec<u8>>>),
    NoSeek(Cursor<Vec<u8>>),
    /// at most this many bytes per read call (a pipe-like source: `Read::read` may always return
    /// fewer bytes than asked for)
    Short(Cursor<Vec<u8>>, usize),
}
impl std::io::Read for Src {
    fn read(&mut self, b: &mut [u8]) -> std::io::Result<usize> {
        match self {
            Src::Plain(c) => c.read(b),
            Src::Buf(c) => c.read(b),
            Src::NoSeek(c) => c.read(b),
            Src::Short(c, m) => {
                let n = b.len().min(*m);
                c.read(&mut b[..n])
            }
        }
    }
}
impl std::io::Seek for Src {
    fn seek(&mut self, p: std::io::SeekFrom) -> std::io::Result<u64> {
        match self {
            Src::Plain(c) => c.seek(p),
            Src::Buf(c) => c.seek(p),
            Src::Short(c, _) => c.seek(p),
            Src::NoSeek(_) => Err(std::io::Error::new(std::io::ErrorKind::Unsupported, "Illegal seek")),
        }
    }
}
fn src(d: &[u8], rbuf: u32) -> Src {
    if rbuf == 0 {
        Src::Plain(Cursor::new(d.to_vec()))
    } else if rbuf < 8 {
        Src::Short(Cursor::new(d.to_vec()), rbuf as usize)
    } else {
        Src::Buf(BufReader::with_capacity(rbuf as usize, Cursor::new(d.to_vec())))
    }
}

/// What one call returned, in harness terms.
#[derive(Clone, Debug, PartialEq)]
enum Obs {
    /// items an iteration yielded (each: record geometry, attribute row index if any), and
    /// whether the iterator was seen to end (returned None)
    Items(Vec<Result<(Geom, Option<i64>), RErr>>, bool),
    Nth(Option<Item>),
    Unit(Result<(), RErr>),
    Count(Result<usize, RErr>),
    /// whether the call unwound (and was caught)
    Caught(bool),
}

fn row_idx(r: &dbase::Record) -> Option<i64> {
    match r.get("idx") {
        Some(dbase::FieldValue::Integer(i)) => Some(*i as i64),
        Some(dbase::FieldValue::Numeric(Some(f))) => Some(*f as i64),
        _ => None,
    }
}

enum AnyReader {
    Shp(ShapeReader<Src>),
    Full(Reader<Src, Src>),
}

fn apply(r: &mut AnyReader, op: ROp, n: usize) -> Result<Obs, PanicInfo> {
    let cap = n + 3;
    guarded(|| match (r, op) {
        (AnyReader::Shp(r), ROp::Iter(j)) => {
            let want = if j == 255 { cap } else { j as usize };
            let mut it = r.iter_shapes();
            let mut items = Vec::new();
            let mut ended = false;
            while items.len() < want {
                match it.next() {
                    None => {
                        ended = true;
                        break;
                    }
                    Some(Ok(s)) => items.push(Ok((capture(&s), None))),
                    Some(Err(e)) => items.push(Err(classify(&e))),
                }
            }
            Obs::Items(items, ended)
        }
        (AnyReader::Full(r), ROp::Iter(j)) => {
            let want = if j == 255 { cap } else { j as usize };
            let mut it = r.iter_shapes_and_records();
            let mut items = Vec::new();
            let mut ended = false;
            while items.len() < want {
                match it.next() {
                    None => {
                        ended = true;
                        break;
                    }
                    Some(Ok((s, rec))) => items.push(Ok((capture(&s), row_idx(&rec)))),
                    Some(Err(e)) => items.push(Err(classify(&e))),
                }
            }
            Obs::Items(items, ended)
        }
        (AnyReader::Shp(r), ROp::IterNth(j)) => {
            let mut it = r.iter_shapes();
            match it.nth(j as usize) {
                None => Obs::Items(vec![], true),
                Some(Ok(s)) => Obs::Items(vec![Ok((capture(&s), None))], false),
                Some(Err(e)) => Obs::Items(vec![Err(classify(&e))], false),
            }
        }
        (AnyReader::Full(r), ROp::IterNth(j)) => {
            let mut it = r.iter_shapes_and_records();
            match it.nth(j as usize) {
                None => Obs::Items(vec![], true),
                Some(Ok((s, rec))) => Obs::Items(vec![Ok((capture(&s), row_idx(&rec)))], false),
                Some(Err(e)) => Obs::Items(vec![Err(classify(&e))], false),
            }
        }
        (AnyReader::Shp(_), ROp::IterRowErr) => Obs::Unit(Ok(())),
        (AnyReader::Full(r), ROp::IterRowErr) => match r.iter_shapes_and_records_as::<shapefile::Shape, BadRow>().next() {
            None => Obs::Items(vec![], true),
            Some(Ok((s, _))) => Obs::Items(vec![Ok((capture(&s), None))], false),
            Some(Err(e)) => Obs::Items(vec![Err(classify(&e))], false),
        },
        (AnyReader::Shp(r), ROp::IterForget) => {
            let mut it = r.iter_shapes();
            let x = it.next();
            std::mem::forget(it);
            match x {
                None => Obs::Items(vec![], true),
                Some(Ok(s)) => Obs::Items(vec![Ok((capture(&s), None))], false),
                Some(Err(e)) => Obs::Items(vec![Err(classify(&e))], false),
            }
        }
        (AnyReader::Full(r), ROp::IterForget) => {
            let mut it = r.iter_shapes_and_records();
            let x = it.next();
            std::mem::forget(it);
            match x {
                None => Obs::Items(vec![], true),
                Some(Ok((s, rec))) => Obs::Items(vec![Ok((capture(&s), row_idx(&rec)))], false),
                Some(Err(e)) => Obs::Items(vec![Err(classify(&e))], false),
            }
        }
        (AnyReader::Shp(r), ROp::IterLast) => match r.iter_shapes().last() {
            None => Obs::Items(vec![], true),
            Some(Ok(s)) => Obs::Items(vec![Ok((capture(&s), None))], true),
            Some(Err(e)) => Obs::Items(vec![Err(classify(&e))], true),
        },
        (AnyReader::Full(r), ROp::IterLast) => match r.iter_shapes_and_records().last() {
            None => Obs::Items(vec![], true),
            Some(Ok((s, rec))) => Obs::Items(vec![Ok((capture(&s), row_idx(&rec)))], true),
            Some(Err(e)) => Obs::Items(vec![Err(classify(&e))], true),
        },
        (AnyReader::Shp(r), ROp::IterWrong) => {
            let mut it = r.iter_shapes_as::<shapefile::Multipatch>();
            match it.next() {
                None => Obs::Items(vec![], true),
                Some(Ok(s)) => Obs::Items(vec![Ok((capture(&shapefile::Shape::from(s)), None))], false),
                Some(Err(e)) => Obs::Items(vec![Err(classify(&e))], false),
            }
        }
        (AnyReader::Full(r), ROp::IterWrong) => {
            let mut it = r.iter_shapes_and_records_as::<shapefile::Multipatch, dbase::Record>();
            match it.next() {
                None => Obs::Items(vec![], true),
                Some(Ok((s, rec))) => Obs::Items(vec![Ok((capture(&shapefile::Shape::from(s)), row_idx(&rec)))], false),
                Some(Err(e)) => Obs::Items(vec![Err(classify(&e))], false),
            }
        }
        (AnyReader::Shp(r), ROp::Nth(i)) => Obs::Nth(r.read_nth_shape(i as usize).map(|x| x.map(|s| capture(&s)).map_err(|e| classify(&e)))),
        (AnyReader::Full(_), ROp::Nth(_)) => Obs::Unit(Ok(())),
        (AnyReader::Shp(r), ROp::NthWrong(i)) => {
            // the file's type is never Multipatch in this family
            Obs::Nth(r.read_nth_shape_as::<shapefile::Multipatch>(i as usize).map(|x| x.map(|s| capture(&shapefile::Shape::from(s))).map_err(|e| classify(&e))))
        }
        (AnyReader::Full(_), ROp::NthWrong(_)) => Obs::Unit(Ok(())),
        (AnyReader::Shp(r), ROp::Seek(k)) => Obs::Unit(r.seek(k as usize).map_err(|e| classify(&e))),
        (AnyReader::Full(r), ROp::Seek(k)) => Obs::Unit(r.seek(k as usize).map_err(|e| classify(&e))),
        (AnyReader::Shp(r), ROp::NthPanic(i)) => {
            let res = std::panic::catch_unwind(std::panic::AssertUnwindSafe(|| r.read_nth_shape_as::<Brittle>(i as usize).is_some()));
            Obs::Caught(res.is_err())
        }
        (AnyReader::Full(_), ROp::NthPanic(_)) => Obs::Unit(Ok(())),
        (AnyReader::Shp(r), ROp::Count) => Obs::Count(r.shape_count().map_err(|e| classify(&e))),
        (AnyReader::Full(r), ROp::Count) => Obs::Count(r.shape_count().map_err(|e| classify(&e))),
    })
}

fn op_name(op: ROp) -> String {
    match op {
        ROp::Iter(255) => "iter-all".into(),
        ROp::Iter(j) => format!("iter-{}", j),
        ROp::Nth(i) => format!("nth({})", i),
        ROp::NthWrong(i) => format!("nth-as-other-type({})", i),
        ROp::IterWrong => "iter-as-other-type-1".into(),
        ROp::IterNth(j) => format!("iter-nth({})", j),
        ROp::IterLast => "iter-last".into(),
        ROp::IterRowErr => "iter-with-unfit-row-type-1".into(),
        ROp::IterForget => "iter-1-then-forget".into(),
        ROp::Seek(k) => format!("seek({})", k),
        ROp::Count => "count".into(),
        ROp::NthPanic(i) => format!("nth-as-panicking-user-type({})", i),
    }
}

pub fn history_name(ops: &[ROp]) -> String {
    ops.iter().map(|o| op_name(*o)).collect::<Vec<_>>().join(";")
}

/// Shape of a history for fingerprints: the kinds of the last two calls
fn history_site(ops: &[ROp], upto: usize) -> String {
    let k = |o: &ROp| match o {
        ROp::Iter(_) => "iter",
        ROp::Nth(_) => "nth",
        ROp::NthWrong(_) => "nthwrong",
        ROp::IterWrong => "iterwrong",
        ROp::IterNth(_) => "iternth",
        ROp::IterLast => "iterlast",
        ROp::IterRowErr => "iterrowerr",
        ROp::IterForget => "iterforget",
        ROp::Seek(_) => "seek",
        ROp::Count => "count",
        ROp::NthPanic(_) => "nthpanic",
    };
    let prev = if upto > 0 { k(&ops[upto - 1]) } else { "fresh" };
    format!("{}-then-{}", prev, k(&ops[upto]))
}

pub fn run_history(scn: &HrScn, f: &ValidFile, dbf: &[u8], ctx: &mut Ctx) {
    let n = f.expected.len();
    let never = |_: usize, _: usize| false;
    if scn.layout != 0 && matches!(scn.kind, RKind::ShpNoIndex | RKind::FullNoIndex) {
        ctx.fail("HARNESS", "invalid-scenario", "histr", "a re-laid-out file can only be read with its index".to_string());
        return;
    }
    let (shp, shx) = relayout(f, scn.layout);
    let opened = guarded(|| -> Result<AnyReader, shapefile::Error> {
        Ok(match scn.kind {
            RKind::ShpIndex => AnyReader::Shp(ShapeReader::with_shx(src(&shp, scn.rbuf), src(&shx, scn.rbuf))?),
            RKind::ShpNoIndex => AnyReader::Shp(ShapeReader::new(src(&shp, scn.rbuf))?),
            RKind::Full => AnyReader::Full(Reader::new(ShapeReader::with_shx(src(&shp, scn.rbuf), src(&shx, scn.rbuf))?, dbase::Reader::new(src(dbf, scn.rbuf))?)),
            RKind::FullNoIndex => AnyReader::Full(Reader::new(ShapeReader::new(src(&shp, scn.rbuf))?, dbase::Reader::new(src(dbf, scn.rbuf))?)),
            RKind::ShpIndexNoSeek => AnyReader::Shp(ShapeReader::with_shx(Src::NoSeek(Cursor::new(shp.clone())), src(&shx, scn.rbuf))?),
        })
    });
    let mut rdr = match opened {
        Ok(Ok(r)) => r,
        Ok(Err(e)) => {
            ctx.fail("C15", "open", "open", format!("cannot open a valid file: {:?}", classify(&e)));
            return;
        }
        Err(p) => {
            ctx.fail("C15", "panic", p.site(), p.text());
            return;
        }
    };
    let has_index = !matches!(scn.kind, RKind::ShpNoIndex | RKind::FullNoIndex);
    let with_rows = matches!(scn.kind, RKind::Full | RKind::FullNoIndex);
    let hist = history_name(&scn.ops);
    // the model: set of possible positions of the next record an iteration yields;
    // `after_iter` = the previous state-changing call was an iteration that took items
    let mut cand: BTreeSet<usize> = BTreeSet::from([0]);
    // after a typed iteration that failed, C15 says nothing about where a further iteration
    // starts (through the complete reader the row of the failed shape is not consumed either):
    // iterations are not judged again until a seek or a successful random access defines the state
    let mut unsynced = false;
    for (oi, op) in scn.ops.iter().enumerate() {
        ctx.stats.steps += 1;
        let obs = match apply(&mut rdr, *op, n) {
            Ok(o) => o,
            Err(p) => {
                ctx.fail("C15", "panic", p.site(), format!("history {} ({:?}): call {} panicked: {}", hist, scn.kind, oi, p.text()));
                return;
            }
        };
        ctx.stats.reach(&history_site(&scn.ops, oi));
        let site = format!("{}:{}{}", history_site(&scn.ops, oi), match scn.kind { RKind::ShpIndex => "index", RKind::ShpNoIndex => "noindex", RKind::Full => "full", RKind::FullNoIndex => "full-noindex", RKind::ShpIndexNoSeek => "index-noseek" }, if scn.layout != 0 { ":relaid" } else { "" });
        match (op, obs) {
            (ROp::Count, Obs::Count(c)) => {
                let want = if has_index { Ok(n) } else { Err(RErr::MissingIndex) };
                if c != want {
                    ctx.fail("C15", "count-constant", site, format!("history {} ({:?}): shape_count() at call {} = {:?}, expected {:?}", hist, scn.kind, oi, c, want));
                }
            }
            (ROp::Nth(_), Obs::Unit(_)) | (ROp::NthWrong(_), Obs::Unit(_)) | (ROp::NthPanic(_), Obs::Unit(_)) => {} // not available on the complete reader
            (ROp::NthPanic(i), Obs::Caught(unwound)) => {
                let i = *i as usize;
                let expect = has_index && i < n;
                if unwound != expect {
                    ctx.fail("C15", "random-access-as-panicking-type", site, format!("history {} ({:?}): read_nth_shape_as::<user type>({}) {} although {}", hist, scn.kind, i, if unwound { "reached the user's read_from" } else { "did not reach the user's read_from" }, if expect { "the entry exists" } else { "there is no such entry (or no index)" }));
                }
                if expect {
                    // like a random access that failed: from the first record, or from where the reader was
                    cand.insert(0);
                }
            }
            (ROp::NthWrong(i), Obs::Nth(x)) => {
                let i = *i as usize;
                let want = if !has_index {
                    Some(Err(RErr::MissingIndex))
                } else if i >= n {
                    None
                } else {
                    Some(Err(RErr::Mismatch { requested: 31, actual: scn.ty }))
                };
                if x != want {
                    ctx.fail("C15", "random-access-as-other-type", site, format!("history {} ({:?}): read_nth_shape_as::<Multipatch>({}) on a {} file = {:?}", hist, scn.kind, i, type_name(scn.ty), x.as_ref().map(item_short)));
                }
                if has_index && i < n {
                    // C15 defines the state after a successful random access only: after a failed
                    // one an iteration may start from the first record or from where the reader was
                    cand.insert(0);
                }
            }
            (ROp::Nth(i), Obs::Nth(x)) => {
                let i = *i as usize;
                if !has_index {
                    if x != Some(Err(RErr::MissingIndex)) {
                        ctx.fail("C15", "no-index-answers-missing-index", site, format!("history {}: read_nth_shape({}) without index = {:?}", hist, i, x.as_ref().map(item_short)));
                    }
                } else if i >= n {
                    if x.is_some() {
                        ctx.fail("C15", "random-access", site, format!("history {} ({:?}): read_nth_shape({}) with {} records = {:?}", hist, scn.kind, i, n, x.as_ref().map(item_short)));
                    }
                } else {
                    let ok = matches!(&x, Some(Ok(g)) if diff_read(&f.expected[i], g, i, &never).is_none());
                    if !ok {
                        ctx.fail("C15", "random-access", site, format!("history {} ({:?}): read_nth_shape({}) at call {} = {:?}", hist, scn.kind, i, oi, x.as_ref().map(item_short)));
                    }
                    cand = BTreeSet::from([0]);
                    unsynced = false;
                }
            }
            (ROp::IterWrong, Obs::Items(items, _)) => {
                // what it yields: a mismatch error naming (Multipatch, file type) if a record was there
                let ok = match items.first() {
                    None => true,
                    Some(Err(RErr::Mismatch { requested: 31, actual })) => *actual == scn.ty,
                    Some(Err(RErr::MissingIndex)) => false,
                    Some(Err(_)) => unsynced, // only after an earlier failed iteration may the source be anywhere
                    Some(Ok(_)) => false,
                };
                if !ok {
                    ctx.fail("C15", "typed-iteration-of-other-type", site, format!("history {} ({:?}): iterating as Multipatch over a {} file yielded {:?}", hist, scn.kind, type_name(scn.ty), items.iter().map(|i| match i { Ok((g, _)) => g.short(), Err(e) => format!("Err({:?})", e) }).collect::<Vec<_>>()));
                }
                if !items.is_empty() {
                    unsynced = true;
                }
            }
            (ROp::Seek(k), Obs::Unit(res)) => {
                if !has_index {
                    if res != Err(RErr::MissingIndex) {
                        ctx.fail("C15", "no-index-answers-missing-index", site, format!("history {}: seek({}) without index = {:?}", hist, k, res));
                    }
                } else if res.is_err() {
                    ctx.fail("C15", "seek-ok", site, format!("history {} ({:?}): seek({}) = {:?}", hist, scn.kind, k, res));
                } else {
                    cand = BTreeSet::from([(*k as usize).min(n)]);
                    unsynced = false;
                }
            }
            (ROp::IterRowErr, Obs::Unit(_)) => {}
            (ROp::Iter(_), Obs::Items(..)) | (ROp::IterNth(_), Obs::Items(..)) | (ROp::IterLast, Obs::Items(..)) | (ROp::IterRowErr, Obs::Items(..)) | (ROp::IterForget, Obs::Items(..)) if unsynced => {
                ctx.stats.reach("iteration-not-judged-after-failed-typed-iteration");
            }
            (ROp::IterRowErr, Obs::Items(items, ended)) => {
                // the pair at the current position is consumed, its row being reported as an error
                let mut next: BTreeSet<usize> = BTreeSet::new();
                for &p in cand.iter() {
                    if p < n {
                        if matches!(items.first(), Some(Err(_))) && !ended {
                            next.insert(p + 1);
                            next.insert(0);
                        }
                    } else if items.is_empty() && ended {
                        next.insert(p);
                    }
                }
                if next.is_empty() {
                    ctx.fail("C15", "iteration-sequence", site, format!("history {} ({:?}, {} records): call {} (pair iteration with a row type that does not fit) returned {:?}{}; allowed start positions were {:?}", hist, scn.kind, n, oi, items.iter().map(|i| match i { Ok((g, _)) => g.short(), Err(e) => format!("Err({:?})", e) }).collect::<Vec<_>>(), if ended { " (the end)" } else { "" }, cand));
                    return;
                }
                cand = next;
            }
            (ROp::IterForget, Obs::Items(items, ended)) => {
                // exactly like taking one item
                let mut next: BTreeSet<usize> = BTreeSet::new();
                for &p in cand.iter() {
                    if p < n {
                        let ok = !ended && matches!(items.first(), Some(Ok((g, row))) if diff_read(&f.expected[p], g, p, &never).is_none() && (!with_rows || *row == Some(p as i64)));
                        if ok {
                            next.insert(p + 1);
                            next.insert(0);
                        }
                    } else if items.is_empty() && ended {
                        next.insert(p);
                    }
                }
                if next.is_empty() {
                    ctx.fail("C15", "iteration-sequence", site, format!("history {} ({:?}, {} records): call {} (one item, iterator leaked) returned {:?}; allowed start positions were {:?}", hist, scn.kind, n, oi, items.iter().map(|i| match i { Ok((g, r)) => format!("{}#{:?}", g.short(), r), Err(e) => format!("Err({:?})", e) }).collect::<Vec<_>>(), cand));
                    return;
                }
                cand = next;
            }
            (ROp::IterLast, Obs::Items(items, _)) => {
                // the last record if any was left, nothing otherwise; everything is consumed
                let mut next: BTreeSet<usize> = BTreeSet::new();
                for &p in cand.iter() {
                    if p < n {
                        let ok = matches!(items.first(), Some(Ok((g, row))) if diff_read(&f.expected[n - 1], g, n - 1, &never).is_none() && (!with_rows || *row == Some((n - 1) as i64)));
                        if ok {
                            next.insert(n);
                            next.insert(0);
                        }
                    } else if items.is_empty() {
                        next.insert(p);
                    }
                }
                if next.is_empty() {
                    let shown: Vec<String> = items
                        .iter()
                        .map(|it| match it {
                            Ok((g, row)) => {
                                let which = f.expected.iter().position(|e| diff_read(e, g, 0, &never).is_none());
                                format!("record {:?}{}", which, row.map(|r| format!("/row {}", r)).unwrap_or_default())
                            }
                            Err(e) => format!("Err({:?})", e),
                        })
                        .collect();
                    ctx.fail("C15", "iteration-sequence", site, format!("history {} ({:?}, {} records): call {} (last()) returned [{}]; allowed start positions were {:?}", hist, scn.kind, n, oi, shown.join(", "), cand));
                    return;
                }
                cand = next;
            }
            (ROp::IterNth(j), Obs::Items(items, ended)) => {
                // the item after j passed-over ones, or the end if fewer than j + 1 were left
                let j = *j as usize;
                let mut next: BTreeSet<usize> = BTreeSet::new();
                for &p in cand.iter() {
                    let avail = n.saturating_sub(p);
                    if avail > j {
                        let ok = !ended
                            && matches!(items.first(), Some(Ok((g, row))) if diff_read(&f.expected[p + j], g, p + j, &never).is_none() && (!with_rows || *row == Some((p + j) as i64)));
                        if ok {
                            next.insert(p + j + 1);
                            next.insert(0);
                        }
                    } else if ended && items.is_empty() {
                        if avail > 0 {
                            next.insert(n);
                            next.insert(0);
                        } else {
                            next.insert(p);
                        }
                    }
                }
                if next.is_empty() {
                    let shown: Vec<String> = items
                        .iter()
                        .map(|it| match it {
                            Ok((g, row)) => {
                                let which = f.expected.iter().position(|e| diff_read(e, g, 0, &never).is_none());
                                format!("record {:?}{}", which, row.map(|r| format!("/row {}", r)).unwrap_or_default())
                            }
                            Err(e) => format!("Err({:?})", e),
                        })
                        .collect();
                    ctx.fail("C15", "iteration-sequence", site, format!("history {} ({:?}, {} records): call {} ({}) returned [{}]{}; allowed start positions were {:?}", hist, scn.kind, n, oi, op_name(*op), shown.join(", "), if ended { " (the end)" } else { "" }, cand));
                    return;
                }
                cand = next;
            }
            (ROp::Iter(j), Obs::Items(items, ended)) => {
                let want = if *j == 255 { n + 3 } else { *j as usize };
                // which candidates explain the observation?
                let mut next: BTreeSet<usize> = BTreeSet::new();
                for &p in cand.iter() {
                    let avail = n.saturating_sub(p);
                    let len = want.min(avail);
                    if items.len() != len {
                        continue;
                    }
                    // the iterator must have ended iff we asked for more than there was
                    if (want > avail) != ended {
                        continue;
                    }
                    let ok = items.iter().enumerate().all(|(t, it)| match it {
                        Ok((g, row)) => diff_read(&f.expected[p + t], g, p + t, &never).is_none() && (!with_rows || *row == Some((p + t) as i64)),
                        Err(_) => false,
                    });
                    if ok {
                        if len > 0 {
                            // a further iteration: the records not yet consumed, or all from the first
                            next.insert(p + len);
                            next.insert(0);
                        } else {
                            next.insert(p);
                        }
                    }
                }
                if next.is_empty() {
                    let shown: Vec<String> = items
                        .iter()
                        .map(|it| match it {
                            Ok((g, row)) => {
                                let which = f.expected.iter().position(|e| diff_read(e, g, 0, &never).is_none());
                                format!("record {:?}{}", which, row.map(|r| format!("/row {}", r)).unwrap_or_default())
                            }
                            Err(e) => format!("Err({:?})", e),
                        })
                        .collect();
                    ctx.fail(
                        "C15",
                        "iteration-sequence",
                        site,
                        format!("history {} ({:?}, {} records): call {} ({}) yielded [{}]{}; allowed start positions were {:?}", hist, scn.kind, n, oi, op_name(*op), shown.join(", "), if ended { " then ended" } else { "" }, cand),
                    );
                    return;
                }
                cand = next;
            }
            (o, x) => {
                ctx.fail("HARNESS", "obs-mismatch", "histr", format!("{:?} -> {:?}", o, x));
                return;
            }
        }
    }
    ctx.stats.distinct.insert(crate::prng::fnv_str(&format!("{}|{}|{:?}|{}|{}|{}|{}", scn.ty, scn.varied, scn.kind, hist, scn.rbuf, scn.layout, scn.n)));
}

pub fn execute(scn: &HrScn, ctx: &mut Ctx) {
    let n = scn.n as usize;
    if n == 0 || n > 6 || !TYPES.contains(&scn.ty) {
        ctx.fail("HARNESS", "invalid-scenario", "histr", "bad file parameters".to_string());
        return;
    }
    let Some(f) = produce(&file_for(scn.ty, n, scn.varied)) else {
        ctx.fail("HARNESS", "invalid-scenario", "producer", "cannot produce the file".to_string());
        return;
    };
    let dbf = make_dbf(n);
    run_history(scn, &f, &dbf, ctx);
}

/// The letters that make sense for a configuration: a source that cannot seek is only iterated; the
/// row-typed pair iteration exists on the complete reader only.
pub fn alphabet_for(kind: RKind, n: usize) -> Vec<ROp> {
    if kind == RKind::ShpIndexNoSeek {
        return vec![ROp::Iter(0), ROp::Iter(1), ROp::Iter(2), ROp::Iter(255), ROp::IterNth(1), ROp::IterLast, ROp::IterForget, ROp::Count];
    }
    let mut a = alphabet(n);
    if matches!(kind, RKind::Full | RKind::FullNoIndex) {
        a.push(ROp::IterRowErr);
    }
    a
}

/// The alphabet of the property itself: iterate j items, random access, seek, count.
pub fn is_core(op: &ROp) -> bool {
    matches!(op, ROp::Iter(_) | ROp::Nth(_) | ROp::Seek(_) | ROp::Count)
}

pub fn alphabet(n: usize) -> Vec<ROp> {
    let mut a = vec![ROp::Iter(0), ROp::Iter(1), ROp::Iter(2), ROp::Iter(255)];
    for i in 0..=n {
        a.push(ROp::Nth(i as u8));
    }
    a.push(ROp::NthWrong(0));
    a.push(ROp::NthWrong(1));
    a.push(ROp::IterWrong);
    a.push(ROp::IterNth(1));
    a.push(ROp::IterLast);
    a.push(ROp::IterForget);
    for k in 0..=n {
        a.push(ROp::Seek(k as u8));
    }
    a.push(ROp::Count);
    a.push(ROp::NthPanic(1));
    a
}

/// The configurations swept: (reader, pairwise different sizes?, layout, number of records).
const CONFIGS: [(RKind, bool, u8, usize); 26] = [
    (RKind::ShpIndex, true, 0, 3),
    (RKind::ShpNoIndex, true, 0, 3),
    (RKind::Full, true, 0, 3),
    (RKind::ShpIndex, false, 0, 3),
    (RKind::ShpNoIndex, false, 0, 3),
    (RKind::Full, false, 0, 3),
    (RKind::ShpIndex, true, 1, 3),
    (RKind::Full, true, 1, 3),
    (RKind::ShpIndex, false, 2, 3),
    (RKind::Full, true, 2, 3),
    // small and larger record counts
    (RKind::ShpIndex, true, 0, 1),
    (RKind::Full, true, 0, 1),
    (RKind::ShpIndex, true, 0, 2),
    (RKind::ShpNoIndex, true, 0, 1),
    (RKind::ShpIndex, true, 1, 4),
    (RKind::Full, false, 0, 4),
    // the complete reader without index: rows must follow the shapes across iterations too
    (RKind::FullNoIndex, true, 0, 3),
    (RKind::FullNoIndex, false, 0, 3),
    // slots: slack behind every record, counted by the index entry's length field
    (RKind::ShpIndex, true, 3, 3),
    (RKind::Full, false, 3, 3),
    // a source that cannot seek
    (RKind::ShpIndexNoSeek, true, 0, 3),
    (RKind::ShpIndexNoSeek, false, 0, 4),
    // filler of a few bytes between records in index order, on sources whose reads come back
    // short inside the filler (short-read sources, BufReader capacities that are no divisor of
    // anything): rbuf of these four is RBUF_EXTRA
    (RKind::ShpIndex, false, 3, 3),
    (RKind::ShpIndex, true, 3, 3),
    (RKind::Full, false, 3, 3),
    (RKind::ShpIndex, true, 2, 3),
];
const RBUF_EXTRA: [u32; 4] = [3, 37, 113, 1];
const MAX_ALPHABET: usize = 23;

/// Sweep unit: (configuration, first letter). All histories up to `max_len` starting with that
/// letter (for the 4-record configurations one call less, their alphabet has 19 letters).
/// `max_len`: all histories over the whole alphabet up to that length; `core_len` (>= max_len): beyond
/// max_len, histories continue with the letters of the property's own alphabet only.
pub fn sweep_unit(unit: u64, max_len: usize, core_len: usize, ctx: &mut Ctx, ctl: &mut UnitCtl) {
    let cfg = (unit as usize) / MAX_ALPHABET;
    let (kind, varied, layout, n) = CONFIGS[cfg % CONFIGS.len()];
    let alpha = alphabet_for(kind, n);
    let li = (unit as usize) % MAX_ALPHABET;
    if li >= alpha.len() {
        return;
    }
    let first = alpha[li];
    let (max_len, core_len) = if n >= 4 { (max_len.saturating_sub(1).max(1), core_len.saturating_sub(1).max(1)) } else { (max_len, core_len) };
    // two types per configuration: a multi-vertex one (sizes can differ) and points (always equal)
    let ty = if varied { [3, 15, 28][cfg % 3] } else { [1, 11, 5][cfg % 3] };
    let rbuf = if cfg % CONFIGS.len() >= 22 { RBUF_EXTRA[cfg % CONFIGS.len() - 22] } else { [0u32, 16, 0][cfg % 3] };
    let Some(f) = produce(&file_for(ty, n, varied)) else {
        ctx.fail("HARNESS", "invalid-scenario", "producer", "cannot produce the file".to_string());
        ctl.after_case(ctx, || Scenario::HistR(HrScn { ty, n: n as u8, varied, kind, ops: vec![], rbuf, layout }));
        return;
    };
    let dbf = make_dbf(n);
    // depth-first enumeration of all suffixes
    let mut stack: Vec<Vec<ROp>> = vec![vec![first]];
    while let Some(h) = stack.pop() {
        let scn = HrScn { ty, n: n as u8, varied, kind, ops: h.clone(), rbuf, layout };
        if ctl.before_case(|| Scenario::HistR(scn.clone())) {
            ctx.stats.evaluations += 1;
            run_history(&scn, &f, &dbf, ctx);
            if ctx.stats.samples.len() < 2 && h.len() == max_len && ctl.case_no % 501 == 7 {
                ctx.stats.samples.push(serde_json::json!({"reader": format!("{:?}", kind), "type": type_name(ty), "records": n, "varied_sizes": varied, "layout": layout, "history": history_name(&h)}));
            }
            ctl.after_case(ctx, || Scenario::HistR(scn.clone()));
        }
        if h.len() < max_len {
            for a in &alpha {
                let mut g = h.clone();
                g.push(*a);
                stack.push(g);
            }
        } else if h.len() < core_len && h.iter().all(is_core) {
            for a in alpha.iter().filter(|a| is_core(a)) {
                let mut g = h.clone();
                g.push(*a);
                stack.push(g);
            }
        }
    }
}

pub const SWEEP_UNITS: u64 = (MAX_ALPHABET * CONFIGS.len()) as u64;
