//! Family CORRUPT (C07, C17): storage-corruption faults applied to files the real writer produced
//! in the same run (so field offsets are known exactly), plus hand-built "mutually consistent"
//! inputs from the reference encoder; then every reader entry point, under catch_unwind, with
//! item caps and the allocator monitor.

use crate::alloc;
use crate::core::*;
use crate::gen::*;
use crate::geom::*;
use crate::on_type;
use crate::prng::Rng;
use crate::refcodec::*;
use crate::scn::{Scenario, UnitCtl};
use crate::world::*;
use crate::wrun::*;
use serde::{Deserialize, Serialize};
use shapefile::dbase;
use shapefile::{Reader, ShapeReader};
use std::io::{BufReader, Cursor};

#[derive(Clone, Debug, Serialize, Deserialize)]
pub enum Mutation {
    /// replace the 32-bit field at `off` of device `dev` (0 shp, 1 shx)
    SetField { dev: u8, off: usize, big_endian: bool, value: i32 },
    Truncate { dev: u8, len: usize },
    Extend { dev: u8, bytes: Vec<u8> },
    BitFlip { dev: u8, off: usize, bit: u8 },
    /// everything after the 4-byte file code replaced
    Garbage { dev: u8, bytes: Vec<u8> },
}

#[derive(Clone, Debug, Serialize, Deserialize)]
pub enum Base {
    /// produced by the real writer
    Written(WProg),
    /// raw bytes (hand-built consistent-but-unbacked inputs)
    Raw { shp: Vec<u8>, shx: Vec<u8>, note: String },
}

#[derive(Clone, Debug, Serialize, Deserialize)]
pub struct CorScn {
    pub base: Base,
    pub muts: Vec<Mutation>,
    /// 0 = plain cursor, else BufReader capacity
    pub rbuf: u32,
    /// number of rows the header of the (valid, one-row) .dbf is made to declare; 0 = leave it honest
    #[serde(default)]
    pub dbf_rows: u32,
}

pub struct BaseFile {
    pub shp: Vec<u8>,
    pub shx: Vec<u8>,
    pub dbf: Vec<u8>,
    pub ty: i32,
    pub n: usize,
    pub shp_fields: Vec<FieldLoc>,
    pub shx_fields: Vec<FieldLoc>,
}

fn make_dbf(n: usize) -> Vec<u8> {
    let mut cur = Cursor::new(Vec::<u8>::new());
    {
        let mut w = dbase::TableWriterBuilder::new().add_integer_field(dbase::FieldName::try_from("idx").unwrap()).build_with_dest(&mut cur);
        for i in 0..n {
            let mut rec = dbase::Record::default();
            rec.insert("idx".to_string(), dbase::FieldValue::Integer(i as i32));
            let _ = w.write_record(&rec);
        }
        let _ = w.finalize();
    }
    cur.into_inner()
}

pub fn produce(base: &Base) -> Option<BaseFile> {
    match base {
        Base::Written(w) => {
            let world = World::new(Plan::default());
            let run = run_writer(&world, w);
            if run.build_panic.is_some() || run.marks.iter().any(|m| !m.res.is_ok()) {
                return None;
            }
            let wb = world.borrow();
            let shp = wb.data(SHP).to_vec();
            let shx = wb.data(SHX).to_vec();
            let dec = decode_layout(&shp).ok()?;
            let idx = decode_shx(&shx).ok()?;
            let n = dec.recs.len();
            Some(BaseFile { dbf: make_dbf(n), ty: dec.ty, n, shp_fields: dec.fields, shx_fields: idx.fields, shp, shx })
        }
        Base::Raw { shp, shx, .. } => {
            let ty = if shp.len() >= 36 { i32::from_le_bytes([shp[32], shp[33], shp[34], shp[35]]) } else { 0 };
            Some(BaseFile { shp: shp.clone(), shx: shx.clone(), dbf: make_dbf(1), ty, n: 1, shp_fields: vec![], shx_fields: vec![] })
        }
    }
}

pub fn apply(muts: &[Mutation], shp: &mut Vec<u8>, shx: &mut Vec<u8>) {
    for m in muts {
        match m {
            Mutation::SetField { dev, off, big_endian, value } => {
                let d = if *dev == 0 { &mut *shp } else { &mut *shx };
                if off + 4 <= d.len() {
                    let b = if *big_endian { value.to_be_bytes() } else { value.to_le_bytes() };
                    d[*off..off + 4].copy_from_slice(&b);
                }
            }
            Mutation::Truncate { dev, len } => {
                let d = if *dev == 0 { &mut *shp } else { &mut *shx };
                d.truncate(*len);
            }
            Mutation::Extend { dev, bytes } => {
                let d = if *dev == 0 { &mut *shp } else { &mut *shx };
                d.extend_from_slice(bytes);
            }
            Mutation::BitFlip { dev, off, bit } => {
                let d = if *dev == 0 { &mut *shp } else { &mut *shx };
                if *off < d.len() {
                    d[*off] ^= 1 << (bit % 8);
                }
            }
            Mutation::Garbage { dev, bytes } => {
                let d = if *dev == 0 { &mut *shp } else { &mut *shx };
                d.truncate(4);
                d.extend_from_slice(bytes);
            }
        }
    }
}

enum Src {
    Plain(Cursor<Vec<u8>>),
    Buf(BufReader<Cursor<Vec<u8>>>),
}
impl std::io::Read for Src {
    fn read(&mut self, b: &mut [u8]) -> std::io::Result<usize> {
        match self {
            Src::Plain(c) => c.read(b),
            Src::Buf(c) => c.read(b),
        }
    }
}
impl std::io::Seek for Src {
    fn seek(&mut self, p: std::io::SeekFrom) -> std::io::Result<u64> {
        match self {
            Src::Plain(c) => c.seek(p),
            Src::Buf(c) => c.seek(p),
        }
    }
}
fn src(d: &[u8], rbuf: u32) -> Src {
    if rbuf == 0 {
        Src::Plain(Cursor::new(d.to_vec()))
    } else {
        Src::Buf(BufReader::with_capacity(rbuf as usize, Cursor::new(d.to_vec())))
    }
}

/// count-only drain (no harness allocation proportional to the items): (ok, err, capped)
fn drain_count<S, I: Iterator<Item = Result<S, shapefile::Error>>>(it: I, cap: usize) -> (usize, usize, bool) {
    let (mut ok, mut err) = (0, 0);
    let mut it = it;
    loop {
        let _ = it.size_hint();
        let Some(x) = it.next() else { break };
        if ok + err >= cap {
            return (ok, err, true);
        }
        match x {
            Ok(_) => ok += 1,
            Err(_) => err += 1,
        }
    }
    (ok, err, false)
}

struct Judge<'a> {
    ctx: &'a mut Ctx,
    input_len: usize,
    field: String,
    outcomes: String,
}

impl Judge<'_> {
    /// Run one reader entry point under the panic guard and the allocator monitor.
    fn call<R>(&mut self, name: &str, f: impl FnOnce() -> R) -> Option<R> {
        self.ctx.stats.steps += 1; // logical step = one reader call (sources are plain cursors here)
        alloc::begin();
        let r = guarded(f);
        let (peak, largest) = alloc::end();
        let bound = 64 * self.input_len + 64 * 1024;
        let ratio = peak / self.input_len.max(1);
        self.ctx.stats.reach(if ratio == 0 { "peak/input<1" } else if ratio < 4 { "peak/input:1..4" } else if ratio < 16 { "peak/input:4..16" } else if ratio < 64 { "peak/input:16..64" } else { "peak/input>=64" });
        if peak > bound || largest > bound {
            self.ctx.fail(
                "C17",
                "memory-proportional-to-input",
                format!("{}:{}", name.split('(').next().unwrap_or(""), self.field),
                format!("{} on {} input bytes ({}): peak {} bytes live, largest single request {} bytes, bound {}", name, self.input_len, self.field, peak, largest, bound),
            );
        }
        match r {
            Ok(v) => Some(v),
            Err(p) => {
                self.ctx.stats.reach("reader-call-panicked");
                self.outcomes.push('P');
                self.ctx.fail("C07", "panic", p.site(), format!("{} ({}): {}", name, self.field, p.text()));
                None
            }
        }
    }
    fn iter_done(&mut self, name: &str, r: Option<(usize, usize, bool)>) {
        if let Some((ok, err, capped)) = r {
            self.outcomes.push_str(&format!("{}o{}e{}", if capped { "!" } else { "" }, ok.min(9), err.min(9)));
            if capped {
                self.ctx.fail("C07", "terminates", name.split('(').next().unwrap_or(""), format!("{} ({}): iteration did not end within the item cap ({} ok, {} err items)", name, self.field, ok, err));
            }
        }
    }
}

/// Drive every reader entry point over (shp, shx, dbf).
pub fn drive(ctx: &mut Ctx, shp: &[u8], shx: &[u8], dbf: &[u8], ty: i32, n: usize, rbuf: u32, field: &str) -> String {
    let cap = item_cap(shp.len(), shx.len());
    let mut j = Judge { ctx, input_len: shp.len() + shx.len(), field: field.to_string(), outcomes: String::new() };
    let idxs = [0usize, 1, n.saturating_sub(1), n, usize::MAX];

    // without index
    if let Some(Ok(mut r)) = j.call("ShapeReader::new", || ShapeReader::new(src(shp, rbuf))) {
        let _ = j.call("header", || r.header().file_length);
        let _ = j.call("shape_count(noshx)", || r.shape_count().is_ok());
        let x = j.call("iter_shapes(noshx)", || drain_count(r.iter_shapes(), cap));
        j.iter_done("iter_shapes(noshx)", x);
        let _ = j.call("read_nth_shape(noshx)", || r.read_nth_shape(0).map(|x| x.is_ok()));
        let _ = j.call("seek(noshx)", || r.seek(0).is_ok());
    } else {
        j.outcomes.push('x');
    }
    if let Some(Ok(mut r)) = j.call("ShapeReader::new", || ShapeReader::new(src(shp, rbuf))) {
        let x = j.call("iter_shapes_as(noshx)", || on_type!(ty, S => drain_count(r.iter_shapes_as::<S>(), cap), (0, 0, false)));
        j.iter_done("iter_shapes_as(noshx)", x);
    }
    if let Some(Ok(r)) = j.call("ShapeReader::new", || ShapeReader::new(src(shp, rbuf))) {
        let _ = j.call("read(noshx)", || r.read().map(|v| v.len()).unwrap_or(0));
    }
    if let Some(Ok(r)) = j.call("ShapeReader::new", || ShapeReader::new(src(shp, rbuf))) {
        let _ = j.call("read_as(noshx)", || on_type!(ty, S => r.read_as::<S>().map(|v| v.len()).unwrap_or(0), 0));
    }
    // with index
    j.input_len = shp.len() + shx.len();
    if let Some(Ok(mut r)) = j.call("ShapeReader::with_shx", || ShapeReader::with_shx(src(shp, rbuf), src(shx, rbuf))) {
        let cnt = j.call("shape_count", || r.shape_count().unwrap_or(0)).unwrap_or(0);
        let cap2 = cap.max(cnt.min(1 << 20) + 16);
        let x = j.call("iter_shapes(shx)", || {
            let it = r.iter_shapes();
            let _ = it.size_hint();
            drain_count(it, cap2)
        });
        j.iter_done("iter_shapes(shx)", x);
        for i in idxs {
            let _ = j.call("read_nth_shape", || r.read_nth_shape(i).map(|x| x.is_ok()));
        }
        for i in idxs {
            let _ = j.call("seek", || r.seek(i).is_ok());
            let x = j.call("iter_shapes(after-seek)", || drain_count(r.iter_shapes(), cap2));
            j.iter_done("iter_shapes(after-seek)", x);
        }
        let x = j.call("iter_shapes_as(shx)", || on_type!(ty, S => drain_count(r.iter_shapes_as::<S>(), cap2), (0, 0, false)));
        j.iter_done("iter_shapes_as(shx)", x);
        let _ = j.call("read_nth_shape_as", || on_type!(ty, S => r.read_nth_shape_as::<S>(0).map(|x| x.is_ok()), None));
        // the Iterator adaptors with extreme arguments, on an iterator that has already yielded an item
        // and on a reader whose counter is not at its start: nth / skip / step_by / last
        let _ = j.call("seek", || r.seek(1).is_ok());
        let _ = j.call("iter.next+nth(MAX)", || {
            let mut it = r.iter_shapes();
            let a = it.next().is_some();
            let b = it.nth(usize::MAX).is_some();
            (a, b)
        });
        let _ = j.call("seek", || r.seek(1).is_ok());
        let _ = j.call("iter.skip(MAX)", || r.iter_shapes().skip(usize::MAX).next().is_some());
        let _ = j.call("seek", || r.seek(0).is_ok());
        let _ = j.call("iter.step_by(MAX)", || r.iter_shapes().step_by(usize::MAX).take(3).count());
        let _ = j.call("iter.last", || r.iter_shapes().last().is_some());
    } else {
        j.outcomes.push('X');
    }
    if let Some(Ok(r)) = j.call("ShapeReader::with_shx", || ShapeReader::with_shx(src(shp, rbuf), src(shx, rbuf))) {
        let _ = j.call("read(shx)", || r.read().map(|v| v.len()).unwrap_or(0));
    }
    // the complete reader with a valid .dbf
    j.input_len = shp.len() + shx.len() + dbf.len();
    let opened = j.call("Reader::new", || -> Result<Reader<Src, Src>, shapefile::Error> {
        let sr = ShapeReader::with_shx(src(shp, rbuf), src(shx, rbuf))?;
        let dr = dbase::Reader::new(src(dbf, rbuf))?;
        Ok(Reader::new(sr, dr))
    });
    if let Some(Ok(mut r)) = opened {
        let _ = j.call("Reader::shape_count", || r.shape_count().unwrap_or(0));
        let x = j.call("iter_shapes_and_records", || drain_count(r.iter_shapes_and_records(), cap + n + 16));
        j.iter_done("iter_shapes_and_records", x);
        for i in [0usize, n, usize::MAX] {
            let _ = j.call("Reader::seek", || r.seek(i).is_ok());
        }
        let _ = j.call("Reader::read", || r.read().map(|v| v.len()).unwrap_or(0));
    }
    // by path, under names that are not valid UTF-8 (a Latin-1 name from an older system; Unix file
    // systems allow them), without and with the index next to it: one case in 64, chosen by content
    #[cfg(unix)]
    if crate::prng::fnv(shp) % 64 == 0 {
        use std::os::unix::ffi::OsStrExt;
        let dir = crate::scratch_dir();
        for (k, name) in [&b"caf\xE9-c07.shp"[..], &b"CAF\xC9-C07.SHP"[..]].iter().enumerate() {
            let path = dir.join(std::ffi::OsStr::from_bytes(name));
            if std::fs::write(&path, shp).is_err() {
                continue;
            }
            let shx_path = path.with_extension(if k == 0 { "shx" } else { "SHX" });
            for with_index in [false, true] {
                if with_index && std::fs::write(&shx_path, shx).is_err() {
                    continue;
                }
                j.input_len = shp.len() + if with_index { shx.len() } else { 0 };
                let _ = j.call("from_path(non-utf8 name)", || shapefile::ShapeReader::from_path(&path).map(|mut r| drain_count(r.iter_shapes(), cap)).is_ok());
                let _ = j.call("read_shapes(non-utf8 name)", || shapefile::read_shapes(&path).map(|v| v.len()).unwrap_or(0));
            }
            let _ = std::fs::remove_file(&path);
            let _ = std::fs::remove_file(&shx_path);
        }
        j.ctx.stats.reach("by-path-under-a-non-utf8-name");
    }
    // the complete reader without index (the .shx is optional): the bulk reads
    j.input_len = shp.len() + dbf.len();
    let opened = j.call("Reader::new(noshx)", || -> Result<Reader<Src, Src>, shapefile::Error> { Ok(Reader::new(ShapeReader::new(src(shp, rbuf))?, shapefile::dbase::Reader::new(src(dbf, rbuf))?)) });
    if let Some(Ok(mut r)) = opened {
        let _ = j.call("Reader::read(noshx)", || r.read().map(|v| v.len()).unwrap_or(0));
    }
    let opened = j.call("Reader::new(noshx)", || -> Result<Reader<Src, Src>, shapefile::Error> { Ok(Reader::new(ShapeReader::new(src(shp, rbuf))?, shapefile::dbase::Reader::new(src(dbf, rbuf))?)) });
    if let Some(Ok(mut r)) = opened {
        let _ = j.call("Reader::read_as(noshx)", || on_type!(ty, S => r.read_as::<S, shapefile::dbase::Record>().map(|v| v.len()).unwrap_or(0), 0));
    }
    j.outcomes
}

pub fn execute(scn: &CorScn, ctx: &mut Ctx) {
    let Some(b) = produce(&scn.base) else {
        ctx.fail("HARNESS", "invalid-scenario", "base", "base file cannot be produced".to_string());
        return;
    };
    let mut shp = b.shp.clone();
    let mut shx = b.shx.clone();
    apply(&scn.muts, &mut shp, &mut shx);
    let field = if matches!(scn.base, Base::Raw { .. }) && scn.muts.is_empty() { "consistent-unbacked-count".to_string() } else { describe(&scn.muts, &b) };
    let mut dbf = b.dbf.clone();
    if scn.dbf_rows > 0 && dbf.len() >= 8 {
        dbf[4..8].copy_from_slice(&scn.dbf_rows.to_le_bytes());
    }
    if let Base::Raw { note, .. } = &scn.base {
        if let Some(k) = note.strip_prefix("crowded-directory:").and_then(|k| k.parse::<usize>().ok()) {
            crowded_route(ctx, &shp, &shx, k.min(100_000));
            return;
        }
    }
    drive(ctx, &shp, &shx, &dbf, b.ty, b.n, scn.rbuf, &field);
}

/// The environment as input: a small valid .shp (first without, then with its .shx) opened by path
/// in a directory that holds `k` unrelated files. What opening and reading it requests from the
/// allocator is bounded by the bytes of the data set, not by what else lies in the directory.
fn crowded_route(ctx: &mut Ctx, shp: &[u8], shx: &[u8], k: usize) {
    let dir = crate::scratch_dir().join(format!("crowd-{}", k));
    if !dir.join("populated").exists() {
        let _ = std::fs::create_dir_all(&dir);
        for i in 0..k {
            let _ = std::fs::File::create(dir.join(format!("unrelated-{:06}.dat", i)));
        }
        let _ = std::fs::File::create(dir.join("populated"));
    }
    for (stem, index_ext) in [("small", None), ("SMALL", Some("SHX")), ("other", Some("shx"))] {
        let path = dir.join(format!("{}.shp", stem));
        if std::fs::write(&path, shp).is_err() {
            ctx.fail("HARNESS", "scratch", "crowded-directory", "cannot write into the scratch directory".to_string());
            return;
        }
        let mut input_len = shp.len();
        if let Some(ext) = index_ext {
            let _ = std::fs::write(path.with_extension(ext), shx);
            input_len += shx.len();
        }
        let mut j = Judge { ctx: &mut *ctx, input_len, field: "crowded-directory".into(), outcomes: String::new() };
        let _ = j.call("from_path(crowded directory)", || shapefile::ShapeReader::from_path(&path).map(|mut r| drain_count(r.iter_shapes(), 64)).is_ok());
        let _ = j.call("read_shapes(crowded directory)", || shapefile::read_shapes(&path).map(|v| v.len()).unwrap_or(0));
        let _ = j.call("Reader::from_path(crowded directory)", || shapefile::Reader::from_path(&path).is_ok());
    }
    ctx.stats.reach("by-path-in-a-crowded-directory");
}

/// Field id + value class of the mutations (fingerprint material; survives unrelated edits).
fn describe(muts: &[Mutation], b: &BaseFile) -> String {
    let mut parts = Vec::new();
    for m in muts {
        parts.push(match m {
            Mutation::SetField { dev, off, value, .. } => {
                let fields = if *dev == 0 { &b.shp_fields } else { &b.shx_fields };
                let id = fields.iter().find(|f| f.off == *off).map(|f| f.id.clone()).unwrap_or_else(|| format!("@{}", off));
                // strip record / part numbers
                let id: String = id.chars().filter(|c| !c.is_ascii_digit()).collect();
                format!("{}={}", id, value_class(*value))
            }
            Mutation::Truncate { dev, .. } => format!("trunc-{}", DEV_NAMES[*dev as usize]),
            Mutation::Extend { dev, .. } => format!("extend-{}", DEV_NAMES[*dev as usize]),
            Mutation::BitFlip { dev, .. } => format!("bitflip-{}", DEV_NAMES[*dev as usize]),
            Mutation::Garbage { dev, .. } => format!("garbage-{}", DEV_NAMES[*dev as usize]),
        });
    }
    if parts.is_empty() {
        "unmodified".to_string()
    } else {
        parts.join("+")
    }
}

fn value_class(v: i32) -> &'static str {
    match v {
        0 => "0",
        1 => "1",
        -1 => "-1",
        i32::MIN => "min",
        i32::MAX => "max",
        v if v < 0 => "neg",
        v if v >= 1 << 30 => "ge2^30",
        v if v >= 1 << 27 => "ge2^27",
        v if v >= 1 << 16 => "big",
        _ => "small",
    }
}

pub fn boundary_values(orig: i32) -> Vec<i32> {
    let mut v = vec![0, 1, -1, 2, i32::MIN, i32::MAX, 1 << 30, (1 << 30) - 1, (1 << 30) + 1, 1 << 28, 1 << 29, 1 << 27, -(1 << 30), i32::MAX - 1, i32::MIN + 1, 0x7FFF_FFF0, 1 << 16, 1000, orig.wrapping_add(1), orig.wrapping_sub(1), orig.wrapping_mul(2), orig / 2, orig.wrapping_add(2), orig.wrapping_add(4), -orig];
    v.retain(|x| *x != orig);
    v.sort();
    v.dedup();
    v
}

pub fn generate_base(r: &mut Rng) -> WProg {
    let ty = *r.pick(&TYPES);
    let k = ShapeKnobs { xy: F_SMALLINT | F_DYADIC, zm: F_SMALLINT | F_NODATA, max_parts: 3, max_pts: 5 };
    let n = r.usize(1, 4);
    let shapes: Vec<ShapeSpec> = (0..n).map(|_| gen_spec(r, ty, &k)).collect();
    WProg { calls: (0..n).map(WCall::W).collect(), shapes, others: vec![], ending: Ending::Drop, with_shx: true, stack: StackCfg::Direct }
}

/// One unit = one seeded base file x (every field x every boundary value, every truncation,
/// extensions; sampled pairs, bit flips, garbage).
pub fn unit(seed: u64, ctx: &mut Ctx, ctl: &mut UnitCtl) {
    let mut r = Rng::new(seed);
    let w = generate_base(&mut r);
    let base = Base::Written(w);
    let Some(b) = produce(&base) else {
        ctx.fail("HARNESS", "invalid-scenario", "base", "generated base file cannot be produced".to_string());
        ctl.after_case(ctx, || Scenario::Corrupt(CorScn { base: base.clone(), muts: vec![], rbuf: 0, dbf_rows: 0 }));
        return;
    };
    let rbuf = *r.pick(&[0u32, 0, 0, 9, 8192]);
    let mut case = |muts: Vec<Mutation>, ctx: &mut Ctx, ctl: &mut UnitCtl| {
        if !ctl.before_case(|| Scenario::Corrupt(CorScn { base: base.clone(), muts: muts.clone(), rbuf, dbf_rows: 0 })) {
            return;
        }
        ctx.stats.evaluations += 1;
        let mut shp = b.shp.clone();
        let mut shx = b.shx.clone();
        apply(&muts, &mut shp, &mut shx);
        let field = describe(&muts, &b);
        let outcome = drive(ctx, &shp, &shx, &b.dbf, b.ty, b.n, rbuf, &field);
        ctx.stats.fault(muts.first().map(|m| match m {
            Mutation::SetField { .. } => "field",
            Mutation::Truncate { .. } => "trunc",
            Mutation::Extend { .. } => "extend",
            Mutation::BitFlip { .. } => "bitflip",
            Mutation::Garbage { .. } => "garbage",
        }).unwrap_or("none"), 1);
        ctx.stats.distinct.insert(crate::prng::fnv_str(&format!("{}|{}|{}", b.ty, field, outcome)));
        if ctx.stats.samples.len() < 3 && muts.len() == 1 && ctl.case_no % 97 == 5 {
            ctx.stats.samples.push(serde_json::json!({"base_type": type_name(b.ty), "records": b.n, "mutation": muts, "field": field, "outcome_signature": outcome}));
        }
        ctl.after_case(ctx, || Scenario::Corrupt(CorScn { base: base.clone(), muts: muts.clone(), rbuf, dbf_rows: 0 }));
    };
    case(vec![], ctx, ctl);
    // every field x every boundary value
    for (dev, fields, data) in [(0u8, &b.shp_fields, &b.shp), (1u8, &b.shx_fields, &b.shx)] {
        for f in fields.iter() {
            let orig = if f.big_endian { i32::from_be_bytes(data[f.off..f.off + 4].try_into().unwrap()) } else { i32::from_le_bytes(data[f.off..f.off + 4].try_into().unwrap()) };
            for v in boundary_values(orig) {
                case(vec![Mutation::SetField { dev, off: f.off, big_endian: f.big_endian, value: v }], ctx, ctl);
            }
        }
    }
    // every truncation length, extensions
    for dev in 0..2u8 {
        let len = if dev == 0 { b.shp.len() } else { b.shx.len() };
        for l in 0..len {
            case(vec![Mutation::Truncate { dev, len: l }], ctx, ctl);
        }
        for e in [1usize, 7, 8, 100] {
            for fill in [0u8, 0xFF] {
                case(vec![Mutation::Extend { dev, bytes: vec![fill; e] }], ctx, ctl);
            }
        }
        // extension by a copy of the first record (looks like one more record)
        if dev == 0 && b.shp.len() > 108 {
            case(vec![Mutation::Extend { dev, bytes: b.shp[100..].to_vec() }], ctx, ctl);
        }
    }
    // pairs around every record boundary: the .shp ends 0..9 bytes after the end of record j-1 while
    // the index entry of record j is moved 0..4 words further (a small gap that is not there)
    {
        let dec_bounds: Vec<usize> = b.shp_fields.iter().filter(|f| f.id.ends_with(".number")).map(|f| f.off).collect();
        for (j, start) in dec_bounds.iter().enumerate().skip(1) {
            let Some(off_field) = b.shx_fields.iter().find(|f| f.id == format!("shx.off{}", j)) else { continue };
            let orig = i32::from_be_bytes(b.shx[off_field.off..off_field.off + 4].try_into().unwrap());
            for extra in 0..10usize {
                for w in 0..5i32 {
                    case(
                        vec![Mutation::Truncate { dev: 0, len: start + extra }, Mutation::SetField { dev: 1, off: off_field.off, big_endian: true, value: orig + w }],
                        ctx,
                        ctl,
                    );
                }
            }
        }
    }
    // sampled: pairs of field faults (incl. one on each file), bit flips, garbage
    let all: Vec<(u8, &FieldLoc)> = b.shp_fields.iter().map(|f| (0u8, f)).chain(b.shx_fields.iter().map(|f| (1u8, f))).collect();
    for _ in 0..150 {
        let (d1, f1) = *r.pick(&all);
        let (d2, f2) = *r.pick(&all);
        let vals = boundary_values(7);
        case(
            vec![
                Mutation::SetField { dev: d1, off: f1.off, big_endian: f1.big_endian, value: *r.pick(&vals) },
                Mutation::SetField { dev: d2, off: f2.off, big_endian: f2.big_endian, value: *r.pick(&vals) },
            ],
            ctx,
            ctl,
        );
    }
    for _ in 0..150 {
        let dev = r.below(2) as u8;
        let len = if dev == 0 { b.shp.len() } else { b.shx.len() };
        case(vec![Mutation::BitFlip { dev, off: r.usize(0, len - 1), bit: r.below(8) as u8 }], ctx, ctl);
    }
    for _ in 0..40 {
        let dev = r.below(2) as u8;
        let n = r.usize(0, 300);
        let mut bytes: Vec<u8> = (0..n).map(|_| r.next() as u8).collect();
        // sometimes a plausible header tail so that decoding gets past the header
        if r.chance(1, 2) && n >= 96 {
            bytes[..20].fill(0);
            bytes[20..24].copy_from_slice(&((r.below(400)) as i32).to_be_bytes());
            bytes[24..28].copy_from_slice(&1000i32.to_le_bytes());
            bytes[28..32].copy_from_slice(&(*r.pick(&ALL_CODES)).to_le_bytes());
        }
        case(vec![Mutation::Garbage { dev, bytes }], ctx, ctl);
    }
}

// ---------------------------------------------------------------------------------------------
// C17 ladder: mutually consistent counts and lengths, with no data behind them.

fn hdr(ty: i32, words: i32) -> Vec<u8> {
    enc_header(ty, words, &[0; 8])
}

fn clamp_words(bytes: u64) -> i32 {
    (bytes / 2).min(i32::MAX as u64) as i32
}

/// How much real data stands behind the declared counts: nothing to speak of, or just enough to
/// fill (and exceed) a first pre-allocated chunk of 1024 / 4096 elements.
pub const BACKING: [usize; 5] = [4, 1024, 1025, 2048, 5000];

/// (note, shp, shx) for one declared count `n` of type `ty`, with `backing` real elements present.
pub fn ladder_inputs(ty: i32, n: u64, with_m: bool, backing: usize) -> Vec<(String, Vec<u8>, Vec<u8>)> {
    let mut out = Vec::new();
    let mk_shx = |off_words: i32, len_words: i32| {
        let mut s = hdr(ty, 54);
        s.extend_from_slice(&off_words.to_be_bytes());
        s.extend_from_slice(&len_words.to_be_bytes());
        s
    };
    if (backing as u64) >= n {
        return out;
    }
    if is_multipoint(ty) {
        let content = content_size(ty, 1, n as usize, with_m) as u64;
        let words = clamp_words(content);
        let mut shp = hdr(ty, clamp_words(100 + 8 + content));
        shp.extend_from_slice(&1i32.to_be_bytes());
        shp.extend_from_slice(&words.to_be_bytes());
        shp.extend_from_slice(&ty.to_le_bytes());
        shp.extend_from_slice(&[0u8; 32]);
        shp.extend_from_slice(&(n as i32).to_le_bytes());
        // `backing` points of real data, far fewer than declared
        shp.extend_from_slice(&vec![0u8; 16 * backing]);
        out.push((format!("{} declaring {} points (m={}), {} present", type_name(ty), n, with_m, backing), shp.clone(), mk_shx(50, words)));
        if backing == 4 {
            // the header length only covers what is really there
            let mut shp2 = shp.clone();
            let real = (shp2.len() / 2) as i32;
            shp2[24..28].copy_from_slice(&real.to_be_bytes());
            out.push((format!("{} declaring {} points, header length real", type_name(ty), n), shp2, mk_shx(50, words)));
        }
    } else if is_multipart(ty) {
        for (parts, points, what) in [(1u64, n, "points"), (n, 1u64, "parts"), (n, n, "parts-and-points")] {
            let content = content_size(ty, parts as usize, points as usize, with_m) as u64;
            let words = clamp_words(content);
            let mut shp = hdr(ty, clamp_words(100 + 8 + content));
            shp.extend_from_slice(&1i32.to_be_bytes());
            shp.extend_from_slice(&words.to_be_bytes());
            shp.extend_from_slice(&ty.to_le_bytes());
            shp.extend_from_slice(&[0u8; 32]);
            shp.extend_from_slice(&(parts as i32).to_le_bytes());
            shp.extend_from_slice(&(points as i32).to_le_bytes());
            if parts == 1 {
                // the part array, (for multipatch) the patch kind, then `backing` real points
                shp.extend_from_slice(&0i32.to_le_bytes());
                if ty == 31 {
                    shp.extend_from_slice(&0i32.to_le_bytes());
                }
                shp.extend_from_slice(&vec![0u8; 16 * backing]);
            } else {
                // `backing` part offsets really present (all parts empty, at 0)
                shp.extend_from_slice(&vec![0u8; 4 * backing.max(16)]);
            }
            out.push((format!("{} declaring {} {} (m={}), {} present", type_name(ty), n, what, with_m, backing), shp, mk_shx(50, words)));
        }
        if backing == 4 {
            // the declared points need no x,y at all: the only part starts at (or just before) the
            // end of the points, or there is no part; what follows (Z range, Z array, M range,
            // M array) is then reached with nothing having been read for the declared count
            for (parts, first, what) in [(1u64, n, "one part starting at the last point's end"), (1, n - 1, "one part holding the last point only"), (0, 0, "no part")] {
                let content = content_size(ty, parts as usize, n as usize, with_m) as u64;
                let words = clamp_words(content);
                let mut shp = hdr(ty, clamp_words(100 + 8 + content));
                shp.extend_from_slice(&1i32.to_be_bytes());
                shp.extend_from_slice(&words.to_be_bytes());
                shp.extend_from_slice(&ty.to_le_bytes());
                shp.extend_from_slice(&[0u8; 32]);
                shp.extend_from_slice(&(parts as i32).to_le_bytes());
                shp.extend_from_slice(&(n as i32).to_le_bytes());
                if parts == 1 {
                    shp.extend_from_slice(&(first as i32).to_le_bytes());
                    if ty == 31 {
                        shp.extend_from_slice(&0i32.to_le_bytes());
                    }
                }
                shp.extend_from_slice(&[0u8; 96]);
                out.push((format!("{} declaring {} points (m={}), {}", type_name(ty), n, with_m, what), shp, mk_shx(50, words)));
            }
            // the index is not in storage order: a small complete record is stored first, the record
            // declaring the count behind it, and the .shx lists the latter first - an indexed iteration
            // has to seek, and the sizes it could trust (index entry, header length) are only declared
            {
                let small = content_size(ty, 1, 2, with_m) as u64;
                let content = content_size(ty, 1, n as usize, with_m) as u64;
                let words = clamp_words(content);
                let mut shp = hdr(ty, clamp_words(100 + 8 + small + 8 + content));
                shp.extend_from_slice(&1i32.to_be_bytes());
                shp.extend_from_slice(&((small / 2) as i32).to_be_bytes());
                shp.extend_from_slice(&ty.to_le_bytes());
                shp.extend_from_slice(&[0u8; 32]);
                shp.extend_from_slice(&1i32.to_le_bytes());
                shp.extend_from_slice(&2i32.to_le_bytes());
                shp.extend_from_slice(&0i32.to_le_bytes());
                if ty == 31 {
                    shp.extend_from_slice(&0i32.to_le_bytes());
                }
                let rest = 100 + 8 + small as usize - shp.len();
                shp.extend_from_slice(&vec![0u8; rest]);
                let second_at = shp.len();
                shp.extend_from_slice(&2i32.to_be_bytes());
                shp.extend_from_slice(&words.to_be_bytes());
                shp.extend_from_slice(&ty.to_le_bytes());
                shp.extend_from_slice(&[0u8; 32]);
                shp.extend_from_slice(&1i32.to_le_bytes());
                shp.extend_from_slice(&(n as i32).to_le_bytes());
                shp.extend_from_slice(&0i32.to_le_bytes());
                if ty == 31 {
                    shp.extend_from_slice(&0i32.to_le_bytes());
                }
                shp.extend_from_slice(&[0u8; 64]);
                let mut shx = hdr(ty, 58);
                shx.extend_from_slice(&((second_at / 2) as i32).to_be_bytes());
                shx.extend_from_slice(&words.to_be_bytes());
                shx.extend_from_slice(&50i32.to_be_bytes());
                shx.extend_from_slice(&((small / 2) as i32).to_be_bytes());
                out.push((format!("{} declaring {} points (m={}) stored behind a complete record, listed first by the index", type_name(ty), n, with_m), shp, shx));
            }
        }
    }
    out
}

/// Index files whose header declares `n` entries with `present` of them really there.
pub fn ladder_index(n: u64, present: usize) -> Vec<(String, Vec<u8>, Vec<u8>)> {
    let ty = 1;
    let mut shp = hdr(ty, 64);
    shp.extend_from_slice(&1i32.to_be_bytes());
    shp.extend_from_slice(&10i32.to_be_bytes());
    shp.extend_from_slice(&ty.to_le_bytes());
    shp.extend_from_slice(&[0u8; 16]);
    if (present as u64) >= n {
        return vec![];
    }
    let words = clamp_words(100 + 8 * n);
    let mut shx = hdr(ty, words);
    for _ in 0..present {
        shx.extend_from_slice(&50i32.to_be_bytes());
        shx.extend_from_slice(&10i32.to_be_bytes());
    }
    // the same index next to a .shp whose header agrees with it: a length that could hold as many
    // records as the index declares entries (two files lying consistently)
    let mut shp2 = shp.clone();
    shp2[24..28].copy_from_slice(&clamp_words(100 + 28 * n).to_be_bytes());
    vec![
        (format!("index declaring {} entries, {} present", n, present), shp, shx.clone()),
        (format!("index declaring {} entries, {} present, next to a .shp header declaring room for as many records", n, present), shp2, shx),
    ]
}

pub const LADDER: [u64; 9] = [1_000, 100_000, 1_000_000, 10_000_000, 100_000_000, 1 << 27, 1 << 28, 1 << 29, (1u64 << 31) - 1];

/// C17 ladder unit: unit index = type index (0..13) or 13 for the index file.
pub fn ladder_unit(unit: u64, ctx: &mut Ctx, ctl: &mut UnitCtl) {
    let mut inputs: Vec<(String, Vec<u8>, Vec<u8>)> = Vec::new();
    if unit == 15 {
        // a small valid data set opened by path among 20 000 unrelated files
        let w = WProg { calls: vec![WCall::W(0)], shapes: vec![grid_spec(1, 1, 1, 1)], others: vec![], ending: Ending::Drop, with_shx: true, stack: StackCfg::Direct };
        let Some(b) = produce(&Base::Written(w)) else {
            ctx.fail("HARNESS", "invalid-scenario", "base", "cannot produce the small file".to_string());
            return;
        };
        let scn = CorScn { base: Base::Raw { shp: b.shp.clone(), shx: b.shx.clone(), note: "crowded-directory:20000".into() }, muts: vec![], rbuf: 0, dbf_rows: 0 };
        if ctl.before_case(|| Scenario::Corrupt(scn.clone())) {
            ctx.stats.evaluations += 1;
            execute(&scn, ctx);
            ctx.stats.fault("environment:crowded-directory", 1);
            ctl.after_case(ctx, || Scenario::Corrupt(scn.clone()));
        }
        return;
    }
    if unit == 14 {
        // valid, fully backed files with unusual but legal structure: many small parts, many
        // points, many records (memory must stay proportional to the input for these too)
        let specs: Vec<(String, Vec<ShapeSpec>)> = vec![
            ("valid polyline of 3000 two-point parts".into(), vec![grid_spec(3, 3000, 2, 1)]),
            ("valid multipatch of 2049 three-point patches".into(), vec![grid_spec(31, 2049, 3, 1)]),
            ("valid polygonZ of 1500 rings".into(), vec![grid_spec(15, 1500, 3, 1)]),
            ("valid multipointM of 8193 points".into(), vec![grid_spec(28, 1, 8193, 1)]),
            ("valid file of 5000 point records".into(), (0..5000).map(|k| grid_spec(1, 1, 1, k)).collect()),
            ("valid polylineM of 1025 parts of 1..3 points and one of 3000".into(), vec![grid_spec(23, 1025, 2, 1), grid_spec(23, 1, 3000, 5)]),
        ];
        for (note, shapes) in specs {
            let w = WProg { calls: (0..shapes.len()).map(WCall::W).collect(), shapes, others: vec![], ending: Ending::Drop, with_shx: true, stack: StackCfg::Direct };
            for rbuf in [0u32, 8192] {
                let scn = CorScn { base: Base::Written(w.clone()), muts: vec![], rbuf, dbf_rows: 0 };
                if !ctl.before_case(|| Scenario::Corrupt(scn.clone())) {
                    continue;
                }
                let Some(b) = produce(&scn.base) else {
                    ctx.fail("HARNESS", "invalid-scenario", "base", format!("cannot produce {}", note));
                    continue;
                };
                ctx.stats.evaluations += 1;
                let outcome = drive(ctx, &b.shp, &b.shx, &b.dbf, b.ty, b.n, rbuf, "unmodified");
                ctx.stats.fault("none-valid-large", 1);
                ctx.stats.distinct.insert(crate::prng::fnv_str(&format!("{}|{}", note, outcome)));
                ctl.after_case(ctx, || Scenario::Corrupt(scn.clone()));
            }
        }
        return;
    }
    if unit < 13 {
        let ty = TYPES[unit as usize];
        for n in LADDER {
            for m in [true, false] {
                for backing in BACKING {
                    if backing > 4 && (n < 1_000_000 || n > 100_000_000 || !m) {
                        continue; // partially backed variants on the middle of the ladder only
                    }
                    inputs.extend(ladder_inputs(ty, n, m, backing));
                }
            }
        }
    } else {
        // records whose declared content length is huge and consistent with the file length,
        // with nothing behind: a null record (no counts to check at all), and each other type
        for n in LADDER {
            for ty in ALL_CODES {
                let words = clamp_words(4 + 8 * n);
                let mut shp = hdr(ty, clamp_words(100 + 8 + 4 + 8 * n));
                shp.extend_from_slice(&1i32.to_be_bytes());
                shp.extend_from_slice(&words.to_be_bytes());
                shp.extend_from_slice(&0i32.to_le_bytes()); // the record itself is a null shape
                shp.extend_from_slice(&[0u8; 24]);
                let mut shx = hdr(ty, 54);
                shx.extend_from_slice(&50i32.to_be_bytes());
                shx.extend_from_slice(&words.to_be_bytes());
                inputs.push((format!("null record declaring {} content words in a {} file", words, type_name(ty)), shp, shx));
            }
        }
        // a long run of null records (legal in a file of any type) followed by one point: whatever
        // a reader does about a null record, it does it 400 000 times in a row
        {
            let nulls = 400_000usize;
            let mut shp = hdr(1, ((100 + 12 * nulls + 28) / 2) as i32);
            let mut shx = hdr(1, ((100 + 8 * (nulls + 1)) / 2) as i32);
            for i in 0..nulls {
                shx.extend_from_slice(&((shp.len() / 2) as i32).to_be_bytes());
                shx.extend_from_slice(&2i32.to_be_bytes());
                shp.extend_from_slice(&((i + 1) as i32).to_be_bytes());
                shp.extend_from_slice(&2i32.to_be_bytes());
                shp.extend_from_slice(&0i32.to_le_bytes());
            }
            shx.extend_from_slice(&((shp.len() / 2) as i32).to_be_bytes());
            shx.extend_from_slice(&10i32.to_be_bytes());
            shp.extend_from_slice(&((nulls + 1) as i32).to_be_bytes());
            shp.extend_from_slice(&10i32.to_be_bytes());
            shp.extend_from_slice(&1i32.to_le_bytes());
            shp.extend_from_slice(&1.5f64.to_le_bytes());
            shp.extend_from_slice(&2.5f64.to_le_bytes());
            inputs.push((format!("{} null records followed by one point in a Point file", nulls), shp, shx));
        }
        for n in LADDER {
            for present in [1usize, 4096, 4097, 9000] {
                if present > 1 && !(1_000_000..=100_000_000).contains(&n) {
                    continue;
                }
                inputs.extend(ladder_index(n, present));
            }
        }
    }
    if unit == 13 {
        // shapes without any point (legal: zero points, zero parts) whose stored box is all NaN
        // (writers that did not compute it), with consistent lengths
        for ty in [8, 18, 28, 3, 13, 23, 5, 15, 25, 31] {
            for m in [true, false] {
                let content = content_size(ty, 0, 0, m) as u64;
                let mut shp = hdr(ty, clamp_words(100 + 8 + content));
                shp.extend_from_slice(&1i32.to_be_bytes());
                shp.extend_from_slice(&clamp_words(content).to_be_bytes());
                shp.extend_from_slice(&ty.to_le_bytes());
                for _ in 0..4 {
                    shp.extend_from_slice(&f64::NAN.to_le_bytes());
                }
                let rest = 100 + 8 + content as usize - shp.len();
                // counts (zero) and, for Z / M types, ranges of NaN
                let mut tail = vec![0u8; rest];
                let counts = if is_multipoint(ty) { 4 } else { 8 };
                for chunk in tail[counts.min(rest)..].chunks_exact_mut(8) {
                    chunk.copy_from_slice(&f64::NAN.to_le_bytes());
                }
                shp.extend_from_slice(&tail);
                let mut shx = hdr(ty, 54);
                shx.extend_from_slice(&50i32.to_be_bytes());
                shx.extend_from_slice(&clamp_words(content).to_be_bytes());
                inputs.push((format!("{} without any point, box and ranges all NaN (m={})", type_name(ty), m), shp, shx));
            }
        }
    }
    if unit == 13 {
        // a small valid data set next to a .dbf whose header declares rows that are not there
        let mut shp = hdr(1, 64);
        shp.extend_from_slice(&1i32.to_be_bytes());
        shp.extend_from_slice(&10i32.to_be_bytes());
        shp.extend_from_slice(&1i32.to_le_bytes());
        shp.extend_from_slice(&[0u8; 16]);
        let mut shx = hdr(1, 54);
        shx.extend_from_slice(&50i32.to_be_bytes());
        shx.extend_from_slice(&10i32.to_be_bytes());
        for rows in [1_000u32, 1_000_000, 100_000_000, u32::MAX] {
            let scn = CorScn { base: Base::Raw { shp: shp.clone(), shx: shx.clone(), note: format!("a .dbf header declaring {} rows, one present", rows) }, muts: vec![], rbuf: 0, dbf_rows: rows };
            if !ctl.before_case(|| Scenario::Corrupt(scn.clone())) {
                continue;
            }
            ctx.stats.evaluations += 1;
            ctx.stats.fault("dbf-row-count", 1);
            execute(&scn, ctx);
            ctl.after_case(ctx, || Scenario::Corrupt(scn.clone()));
        }
    }
    for (note, shp, shx) in inputs {
        for rbuf in [0u32, 8192] {
            let scn = CorScn { base: Base::Raw { shp: shp.clone(), shx: shx.clone(), note: note.clone() }, muts: vec![], rbuf, dbf_rows: 0 };
            if !ctl.before_case(|| Scenario::Corrupt(scn.clone())) {
                continue;
            }
            ctx.stats.evaluations += 1;
            let ty = i32::from_le_bytes([shp[32], shp[33], shp[34], shp[35]]);
            let dbf = make_dbf(1);
            let outcome = drive(ctx, &shp, &shx, &dbf, ty, 1, rbuf, "consistent-unbacked-count");
            ctx.stats.fault("consistent-count", 1);
            ctx.stats.distinct.insert(crate::prng::fnv_str(&format!("{}|{}", note, outcome)));
            if ctx.stats.samples.len() < 3 && rbuf == 0 && note.contains("100000000") {
                ctx.stats.samples.push(serde_json::json!({"input": note, "shp_bytes": shp.len(), "shx_bytes": shx.len(), "outcome_signature": outcome}));
            }
            ctl.after_case(ctx, || Scenario::Corrupt(scn.clone()));
        }
    }
}
