//! The only source of randomness in the simulator: splitmix64 seeding a xoshiro256**.
//! Consumed exclusively by scenario generation; `execute` never sees it.

pub fn splitmix64(state: &mut u64) -> u64 {
    *state = state.wrapping_add(0x9E37_79B9_7F4A_7C15);
    let mut z = *state;
    z = (z ^ (z >> 30)).wrapping_mul(0xBF58_476D_1CE4_E5B9);
    z = (z ^ (z >> 27)).wrapping_mul(0x94D0_49BB_1331_11EB);
    z ^ (z >> 31)
}

/// Seed of run `index` of the batch `label` under `seed` (VERIF_SEED).
pub fn derive(seed: u64, label: &str, index: u64) -> u64 {
    let mut s = seed ^ 0x5348_5053_494D_0001;
    let mut h = splitmix64(&mut s);
    for b in label.bytes() {
        s ^= b as u64;
        h ^= splitmix64(&mut s);
    }
    s ^= index.wrapping_mul(0xD6E8_FEB8_6659_FD93);
    h ^ splitmix64(&mut s)
}

#[derive(Clone)]
pub struct Rng {
    s: [u64; 4],
}

impl Rng {
    pub fn new(seed: u64) -> Self {
        let mut st = seed;
        let s = [
            splitmix64(&mut st),
            splitmix64(&mut st),
            splitmix64(&mut st),
            splitmix64(&mut st),
        ];
        Rng { s }
    }
    pub fn next(&mut self) -> u64 {
        let r = self.s[1].wrapping_mul(5).rotate_left(7).wrapping_mul(9);
        let t = self.s[1] << 17;
        self.s[2] ^= self.s[0];
        self.s[3] ^= self.s[1];
        self.s[1] ^= self.s[2];
        self.s[0] ^= self.s[3];
        self.s[2] ^= t;
        self.s[3] = self.s[3].rotate_left(45);
        r
    }
    /// uniform in 0..n (n > 0)
    pub fn below(&mut self, n: u64) -> u64 {
        debug_assert!(n > 0);
        ((self.next() as u128 * n as u128) >> 64) as u64
    }
    pub fn range(&mut self, lo: i64, hi_incl: i64) -> i64 {
        lo + self.below((hi_incl - lo + 1) as u64) as i64
    }
    pub fn usize(&mut self, lo: usize, hi_incl: usize) -> usize {
        lo + self.below((hi_incl - lo + 1) as u64) as usize
    }
    /// true with probability num/den
    pub fn chance(&mut self, num: u64, den: u64) -> bool {
        self.below(den) < num
    }
    pub fn pick<'a, T>(&mut self, xs: &'a [T]) -> &'a T {
        &xs[self.below(xs.len() as u64) as usize]
    }
    pub fn shuffle<T>(&mut self, xs: &mut [T]) {
        for i in (1..xs.len()).rev() {
            let j = self.below(i as u64 + 1) as usize;
            xs.swap(i, j);
        }
    }
}

/// FNV-1a, used for "distinct" counting and fingerprints (not for randomness).
pub fn fnv(bytes: &[u8]) -> u64 {
    let mut h: u64 = 0xcbf2_9ce4_8422_2325;
    for b in bytes {
        h ^= *b as u64;
        h = h.wrapping_mul(0x1000_0000_01b3);
    }
    h
}

pub fn fnv_str(s: &str) -> u64 {
    fnv(s.as_bytes())
}
