//! Per-property check plans: which phases (deterministic sweeps and seeded batches) a check
//! runs at each tier, and the dispatch of one unit of work to its family.

use crate::core::*;
use crate::prng::{derive, Rng};
use crate::scn::*;

pub struct Phase {
    pub name: &'static str,
    pub units: u64,
    /// does the phase depend on VERIF_SEED (false = enumeration)
    pub seeded: bool,
}

pub const CLAIMED: [&str; 6] = ["C01", "C02", "C04", "C05", "C06", "C18"];

const RT_BATCH: u64 = 64;

pub fn phases(prop: &str, tier: Tier) -> Vec<Phase> {
    let q = tier == Tier::Quick;
    match prop {
        "C01" | "C02" | "C04" | "C05" | "C06" | "C18" => vec![
            Phase { name: "rt-grid", units: 13, seeded: false },
            Phase { name: "rt-seeded", units: if q { 400 } else { 40_000 }, seeded: true },
        ],
        _ => vec![],
    }
}

pub fn run_unit(prop: &str, phase: &str, unit: u64, seed: u64, _tier: Tier, ctx: &mut Ctx, ctl: &mut UnitCtl) {
    match phase {
        "rt-seeded" => {
            for j in 0..RT_BATCH {
                let run = unit * RT_BATCH + j;
                let mut r = Rng::new(derive(seed, &format!("{}/rt", prop), run));
                let scn = crate::fam_rt::generate(&mut r, prop);
                if !ctl.before_case(|| Scenario::Rt(scn.clone())) {
                    continue;
                }
                ctx.stats.evaluations += 1;
                crate::fam_rt::execute(&scn, ctx);
                if ctx.stats.samples.len() < 2 && j == 0 {
                    ctx.stats.samples.push(serde_json::to_value(Scenario::Rt(scn.clone())).unwrap());
                }
                ctl.after_case(ctx, || Scenario::Rt(scn.clone()));
            }
        }
        "rt-grid" => crate::fam_rt::grid_unit(unit, ctx, ctl),
        _ => {}
    }
}

pub struct PropMeta {
    pub level: &'static str,
    pub rule: &'static str,
    pub explanation: &'static str,
    pub exhaustive: bool,
}

pub fn meta(prop: &str) -> PropMeta {
    match prop {
        "C01" | "C02" | "C04" | "C05" | "C06" | "C18" => PropMeta {
            level: "exploration",
            rule: "rt-grid: 13 types x parts 1..=6 x points/part 1..=8 x {Direct, BufWriter} x {with,without shx}, enumerated; rt-seeded: one seeded scenario per run (type, 0..40 shapes via public constructors, swarm-drawn float classes, finalize placement, ending, stacks, chunk/EINTR schedules). A run counts as non-trivial if it wrote at least one shape; distinct = distinct (type, per-shape part-length signature, writer stack, call pattern, reader stack) tuples by hash.",
            explanation: "Fault-free configuration of the simulator with must-be-masked transfer schedules: the real writer runs against simulated devices, the bytes are judged by an independent decoder and read back through every reading route of the real reader. Simulated time = device operations (logical_steps); the code under test has no clock.",
            exhaustive: false,
        },
        _ => PropMeta { level: "exploration", rule: "", explanation: "", exhaustive: false },
    }
}
