//! Per-property check plans: which phases (deterministic sweeps and seeded batches) a check
//! runs at each tier, and the dispatch of one unit of work to its family.

use crate::core::*;
use crate::prng::{derive, Rng};
use crate::scn::*;

pub struct Phase {
    pub name: &'static str,
    pub units: u64,
    /// does the phase depend on VERIF_SEED (false = enumeration)
    pub seeded: bool,
}

pub const CLAIMED: [&str; 17] = ["C01", "C02", "C03", "C04", "C05", "C06", "C07", "C08", "C09", "C10", "C11", "C12", "C13", "C14", "C15", "C17", "C18"];

const RT_BATCH: u64 = 64;

pub fn phases(prop: &str, tier: Tier) -> Vec<Phase> {
    let q = tier == Tier::Quick;
    match prop {
        "C08" => vec![
            Phase { name: if q { "pair-sweep4" } else { "pair-sweep5" }, units: 13, seeded: false },
            Phase { name: "pair-large", units: 3, seeded: false },
            Phase { name: "pair-seeded", units: if q { 600 } else { 100_000 }, seeded: true },
        ],
        "C15" => vec![Phase { name: if q { "c15-sweep4" } else { "c15-sweep6" }, units: crate::fam_histr::SWEEP_UNITS, seeded: false }],
        "C03" => vec![
            Phase { name: "c03-sweep", units: 14, seeded: false },
            Phase { name: "foreign-large", units: 3, seeded: false },
            Phase { name: "foreign-seeded", units: if q { 1500 } else { 200_000 }, seeded: true },
        ],
        "C14" => vec![
            Phase { name: "c14-sweep", units: 13, seeded: false },
            Phase { name: "c14-sparse", units: 13, seeded: false },
            Phase { name: "foreign-large", units: 3, seeded: false },
            Phase { name: "foreign-seeded", units: if q { 1500 } else { 200_000 }, seeded: true },
        ],
        "C06" => vec![
            // the complete reader: typed and generic bulk reads from the same reader state
            Phase { name: "pair-sweep3", units: 13, seeded: false },
            Phase { name: "rt-grid", units: 13, seeded: false },
            Phase { name: "rt-seeded", units: if q { 1000 } else { 100_000 }, seeded: true },
            Phase { name: "c03-sweep", units: 14, seeded: false },
            Phase { name: "foreign-seeded", units: if q { 500 } else { 60_000 }, seeded: true },
        ],
        "C18" => vec![
            Phase { name: "rt-grid", units: 13, seeded: false },
            Phase { name: "c18-user-shape", units: 2, seeded: false },
            Phase { name: "c18-big-emit", units: if q { 1 } else { 2 }, seeded: false },
            // whenever a write reports success the announced bytes reached the device: shapes of 1025 and 2049 parts under destination faults
            Phase { name: "wfault-manyparts", units: if q { 8 } else { 16 }, seeded: false },
            Phase { name: "rt-large", units: if q { 7 } else { 8 }, seeded: false },
            Phase { name: "rt-seeded", units: if q { 1500 } else { 150_000 }, seeded: true },
            // shapes read from foreign files (empty parts, one-point lines, zero parts) written back
            Phase { name: "c03-sweep", units: 14, seeded: false },
            Phase { name: "foreign-seeded", units: if q { 300 } else { 30_000 }, seeded: true },
        ],
        "C02" => vec![
            Phase { name: "c02-user-shape", units: 1, seeded: false },
            Phase { name: "rt-grid", units: 13, seeded: false },
            Phase { name: "rt-large", units: if q { 7 } else { 8 }, seeded: false },
            Phase { name: "rt-seeded", units: if q { 1500 } else { 150_000 }, seeded: true },
            Phase { name: "wfault-c02", units: if q { 1500 } else { 150_000 }, seeded: true },
        ],
        "C04" => vec![
            Phase { name: "c02-user-shape", units: 1, seeded: false },
            Phase { name: "rt-grid", units: 13, seeded: false },
            Phase { name: "rt-large", units: if q { 7 } else { 8 }, seeded: false },
            Phase { name: "rt-seeded", units: if q { 1500 } else { 150_000 }, seeded: true },
            // shapes read from foreign files written back with an index
            Phase { name: "c03-sweep", units: 14, seeded: false },
            Phase { name: "foreign-seeded", units: if q { 300 } else { 30_000 }, seeded: true },
            // the index after a finalize that failed once, the history ended by drop, finalize or the bulk call
            Phase { name: "wfault-c02", units: if q { 1000 } else { 100_000 }, seeded: true },
        ],
        "C01" => vec![
            Phase { name: "rt-grid", units: 13, seeded: false },
            Phase { name: "rt-large", units: if q { 7 } else { 8 }, seeded: false },
            Phase { name: "rt-seeded", units: if q { 1500 } else { 150_000 }, seeded: true },
        ],
        "C05" => vec![
            Phase { name: "c05-big-box", units: if q { 1 } else { 2 }, seeded: false },
            Phase { name: "rt-grid", units: 13, seeded: false },
            Phase { name: "rt-large", units: if q { 7 } else { 8 }, seeded: false },
            Phase { name: "rt-seeded", units: if q { 1000 } else { 100_000 }, seeded: true },
            Phase { name: "hw-seeded", units: if q { 800 } else { 80_000 }, seeded: true },
            Phase { name: "wfault-c05", units: if q { 2000 } else { 200_000 }, seeded: true },
        ],
        "C09" => vec![
            Phase { name: if q { "c09-sweep4" } else { "c09-sweep6" }, units: 104, seeded: false },
            Phase { name: "c09-big-file", units: 2, seeded: false },
            Phase { name: "c09-size-ladder", units: 1, seeded: false },
            Phase { name: "wfault-c02", units: if q { 1500 } else { 150_000 }, seeded: true },
            Phase { name: "hw-seeded", units: if q { 1000 } else { 150_000 }, seeded: true },
        ],
        "C10" => vec![
            Phase { name: if q { "c10-sweep3" } else { "c10-sweep5" }, units: 13, seeded: false },
            Phase { name: "c10-user-shape", units: 13, seeded: false },
            Phase { name: "c10-long", units: if q { 1 } else { 2 }, seeded: false },
            Phase { name: "c10-bulk-lazy", units: 1, seeded: false },
            Phase { name: "hw-seeded", units: if q { 1000 } else { 150_000 }, seeded: true },
            Phase { name: if q { "pair-sweep3" } else { "pair-sweep5" }, units: 13, seeded: false },
            Phase { name: "pair-seeded", units: if q { 300 } else { 40_000 }, seeded: true },
        ],
        "C11" => vec![
            Phase { name: "crash-path", units: 4, seeded: false },
            Phase { name: "crash-big", units: if q { 1 } else { 2 }, seeded: false },
            Phase { name: "crash-range-tear", units: 120, seeded: false },
            Phase { name: "crash-tear", units: if q { 160 } else { 8000 }, seeded: true },
            Phase { name: if q { "crash-sampled" } else { "crash-full" }, units: if q { 320 } else { 4000 }, seeded: true },
        ],
        "C12" => vec![
            Phase { name: "c12-big-file", units: 1, seeded: false },
            Phase { name: "c12-stderr-gone", units: 1, seeded: false },
            Phase { name: "wfault-large", units: if q { 16 } else { 24 }, seeded: false },
            Phase { name: "wfault", units: if q { 640 } else { 150_000 }, seeded: true },
            Phase { name: "wfault-c02", units: if q { 1500 } else { 150_000 }, seeded: true },
        ],
        "C07" => vec![
            Phase { name: "ladder", units: 16, seeded: false },
            Phase { name: "corrupt", units: if q { 192 } else { 40_000 }, seeded: true },
        ],
        "C17" => vec![
            Phase { name: "ladder", units: 16, seeded: false },
            Phase { name: "corrupt", units: if q { 128 } else { 30_000 }, seeded: true },
        ],
        "C13" => vec![
            Phase { name: if q { "rfault-large-coarse" } else { "rfault-large" }, units: 8, seeded: false },
            Phase { name: "rfault", units: if q { 160 } else { 20_000 }, seeded: true },
        ],
        _ => vec![],
    }
}

pub fn run_unit(prop: &str, phase: &str, unit: u64, seed: u64, _tier: Tier, ctx: &mut Ctx, ctl: &mut UnitCtl) {
    match phase {
        "rt-seeded" => {
            for j in 0..RT_BATCH {
                let run = unit * RT_BATCH + j;
                let mut r = Rng::new(derive(seed, &format!("{}/rt", prop), run));
                let scn = crate::fam_rt::generate(&mut r, prop);
                if !ctl.before_case(|| Scenario::Rt(scn.clone())) {
                    continue;
                }
                ctx.stats.evaluations += 1;
                crate::fam_rt::execute(&scn, ctx);
                if ctx.stats.samples.len() < 2 && j == 0 {
                    ctx.stats.samples.push(serde_json::to_value(Scenario::Rt(scn.clone())).unwrap());
                }
                ctl.after_case(ctx, || Scenario::Rt(scn.clone()));
            }
        }
        "rt-grid" => crate::fam_rt::grid_unit(unit, ctx, ctl),
        // unit 5 (a 2^20-point part) is left to the thorough tier: in the quick tier the sixth unit is the 2^16-record one
        "rt-large" => crate::fam_rt::large_unit(if _tier == Tier::Quick && unit == 5 { 7 } else { unit }, ctx, ctl),
        "pair-large" => crate::fam_pair::large_unit(unit, ctx, ctl),
        "pair-sweep3" => crate::fam_pair::sweep_unit(unit, 3, ctx, ctl),
        "pair-sweep4" => crate::fam_pair::sweep_unit(unit, 4, ctx, ctl),
        "pair-sweep5" => crate::fam_pair::sweep_unit(unit, 5, ctx, ctl),
        "pair-seeded" => {
            for j in 0..RT_BATCH {
                let run = unit * RT_BATCH + j;
                let mut r = Rng::new(derive(seed, &format!("{}/pair", prop), run));
                let scn = crate::fam_pair::generate(&mut r);
                if !ctl.before_case(|| Scenario::Pair(scn.clone())) {
                    continue;
                }
                ctx.stats.evaluations += 1;
                crate::fam_pair::execute(&scn, ctx);
                ctl.after_case(ctx, || Scenario::Pair(scn.clone()));
            }
        }
        "c15-sweep4" => crate::fam_histr::sweep_unit(unit, 4, 4, ctx, ctl),
        "c15-sweep5" => crate::fam_histr::sweep_unit(unit, 5, 5, ctx, ctl),
        // thorough: every history up to length 5 over the whole alphabet, up to length 6 over the property's own
        "c15-sweep6" => crate::fam_histr::sweep_unit(unit, 5, 6, ctx, ctl),
        "c03-sweep" => crate::fam_foreign::c03_sweep_unit(unit, ctx, ctl),
        "c14-sparse" => crate::fam_foreign::sparse_unit(unit, ctx, ctl),
        "foreign-large" => crate::fam_foreign::large_unit(unit, ctx, ctl),
        "c14-sweep" => crate::fam_foreign::c14_sweep_unit(unit, ctx, ctl),
        "foreign-seeded" => {
            for j in 0..RT_BATCH {
                let run = unit * RT_BATCH + j;
                let mut r = Rng::new(derive(seed, &format!("{}/foreign", prop), run));
                let scn = crate::fam_foreign::generate(&mut r, prop);
                if !ctl.before_case(|| Scenario::Foreign(scn.clone())) {
                    continue;
                }
                ctx.stats.evaluations += 1;
                crate::fam_foreign::execute(&scn, ctx);
                if ctx.stats.samples.len() < 2 && j == 0 {
                    ctx.stats.samples.push(serde_json::to_value(Scenario::Foreign(scn.clone())).unwrap());
                }
                ctl.after_case(ctx, || Scenario::Foreign(scn.clone()));
            }
        }
        "hw-seeded" => {
            for j in 0..RT_BATCH {
                let run = unit * RT_BATCH + j;
                let mut r = Rng::new(derive(seed, &format!("{}/hw", prop), run));
                let scn = crate::fam_histw::generate(&mut r, prop);
                if !ctl.before_case(|| Scenario::HistW(scn.clone())) {
                    continue;
                }
                ctx.stats.evaluations += 1;
                crate::fam_histw::execute(&scn, ctx);
                if ctx.stats.samples.len() < 2 && j == 0 {
                    ctx.stats.samples.push(serde_json::to_value(Scenario::HistW(scn.clone())).unwrap());
                }
                ctl.after_case(ctx, || Scenario::HistW(scn.clone()));
            }
        }
        "c09-sweep4" => crate::fam_histw::c09_sweep_unit(unit, 4, ctx, ctl),
        "c09-sweep6" => crate::fam_histw::c09_sweep_unit(unit, 6, ctx, ctl),
        "c18-user-shape" => crate::fam_histw::user_unit(if unit == 0 { 0 } else { 4 }, ctx, ctl),
        "c09-big-file" => crate::fam_histw::user_unit(1 + unit, ctx, ctl),
        "c12-big-file" => crate::fam_histw::user_unit(3 + unit, ctx, ctl),
        "c09-size-ladder" => crate::fam_histw::user_unit(5, ctx, ctl),
        "c12-stderr-gone" => crate::fam_histw::user_unit(6, ctx, ctl),
        "c02-user-shape" => crate::fam_histw::user_unit(7, ctx, ctl),
        "c10-bulk-lazy" => crate::fam_histw::user_unit(8, ctx, ctl),
        "c10-user-shape" => crate::fam_histw::fake_unit(unit, ctx, ctl),
        "c10-long" => crate::fam_histw::c10_long_unit(unit, ctx, ctl),
        "c10-sweep3" => crate::fam_histw::c10_sweep_unit(unit, 3, ctx, ctl),
        "c10-sweep5" => crate::fam_histw::c10_sweep_unit(unit, 5, ctx, ctl),
        "crash-tear" => crate::fam_crash::tear_unit(derive(seed, "C11/tear", unit), ctx, ctl),
        "crash-path" => crate::fam_crash::path_unit(unit, ctx, ctl),
        "crash-big" => crate::fam_crash::big_unit(unit, ctx, ctl),
        "crash-range-tear" => crate::fam_crash::range_tear_unit(unit, ctx, ctl),
        "c05-big-box" => crate::fam_rt::bigbox_unit(unit, ctx, ctl),
        "c18-big-emit" => crate::fam_rt::bigemit_unit(unit, ctx, ctl),
        "crash-sampled" => crate::fam_crash::unit(derive(seed, "C11/crash", unit), 20_000, ctx, ctl),
        "crash-full" => crate::fam_crash::unit(derive(seed, "C11/crash", unit), usize::MAX, ctx, ctl),
        "wfault-c05" => crate::fam_wfault::unit_c05(derive(seed, "C05/wfault", unit), ctx, ctl),
        "wfault-c02" => crate::fam_wfault::unit_c02(derive(seed, "C02/wfault", unit), ctx, ctl),
        "wfault-large" => crate::fam_wfault::large_unit(unit, ctx, ctl),
        "wfault-manyparts" => crate::fam_wfault::large_unit(8 + unit, ctx, ctl),
        "wfault" => crate::fam_wfault::unit(derive(seed, "C12/wfault", unit), ctx, ctl),
        "corrupt" => crate::fam_corrupt::unit(derive(seed, "C07/corrupt", unit), ctx, ctl),
        "ladder" => crate::fam_corrupt::ladder_unit(unit, ctx, ctl),
        "rfault-large" => crate::fam_rfault::large_unit(unit, false, ctx, ctl),
        "rfault-large-coarse" => crate::fam_rfault::large_unit(unit, true, ctx, ctl),
        "rfault" => crate::fam_rfault::unit(derive(seed, "C13/rfault", unit), ctx, ctl),
        _ => {}
    }
}

pub struct PropMeta {
    pub level: &'static str,
    pub rule: &'static str,
    pub explanation: &'static str,
    pub exhaustive: bool,
}

pub fn meta(prop: &str) -> PropMeta {
    match prop {
        "C01" | "C02" | "C04" | "C18" => PropMeta {
            level: "exploration",
            rule: "rt-grid: 13 types x parts 1..=6 x points/part 1..=8 x {Direct, BufWriter(7), BufWriter(8192), write-back layer (committed on flush only)} x {with,without shx}, enumerated; rt-large: files of 1023..10000 records, shapes of 1023..2049 parts and of 1023..8193, 65535..70000, 2^17+5, 2^18+5 (thorough: 2^20+5) points per part, around the readers' internal limits and powers of two a block-wise writer may use; rt-seeded: one seeded scenario per run (type, 0..40 shapes via public constructors, swarm-drawn float classes incl. +-0, subnormals, +-inf, sentinels, no-data neighbourhood, NaN in Z/M; finalize placement; ending by drop / finalize+drop / write_shapes; writer and reader stacks; chunk/EINTR schedules on all four devices; by-path routes over pre-existing longer files in 1/16 of the runs). every file is read back through iter_shapes / iter_shapes_as / read / read_as / random access / the Iterator adaptors nth(1) + step_by(2), with and without index; wfault-c02 (C02 only): seeded workloads with finalize calls anywhere (plain or retried) x every device operation of every finalize failed once on either file - the file a later successful finalize or the drop leaves behind is judged by the strict decoder. A run is non-trivial if it wrote at least one shape; distinct = distinct (type, per-shape part-length signature, writer stack, call pattern, reader stack) tuples by hash. In 1/8 of the seeded runs the (empty) destinations are handed to the writer at a non-zero position. rt-large also writes single parts / multipoints of 65535..70000 points (Z and M types). A quarter of the multi-vertex shapes reach the writer as a Clone::clone() of the constructed value or as another shape overwritten with Clone::clone_from(). After the last explicit finalize of a history the bytes the destinations hold at that moment (below any buffer, the writer still alive) are read back through all routes as well. Every file is also read through iter_shapes().last(). C04 and C18 additionally run c03-sweep and foreign-seeded: every shape read from a foreign file (empty parts, one-point lines, zero parts) is written back through ShapeWriter - announced size = bytes emitted = stored content length, index entries address the records, the rewritten file reads back as what was read. rt-large also writes files of 65535, 65536, 65537, 70000 and 131072 records whose last shape alone holds the extremes. By-path routes name the .shp with a .shp / .SHP / .Shp extension. Every file is also counted with iter_shapes().count() and iterated again afterwards: what that second iteration yields must not depend on the index (C04). c18-user-shape also writes one user-defined record of 2 GiB - 1 MiB, 2 GiB and 3 GiB to sparse sinks (content length in the record header and in the index entry). rt-grid also writes polygons with a hole of side 2^-30, 2^-20, 2^-10 (exact area tiny, not zero) declared inner and outer in both orientations. write_shapes is handed a Vec or a lazy iterator whose size_hint lower bound is 0. Ring roles are judged wherever the exact signed area (integer arithmetic on the coordinates' own binary scale) is not zero; differences on rings whose double-precision shoelace sum itself rounds to zero or to the other sign form the open known finding C01/ring-role-rounding. A quarter of the by-path runs name their files without a directory component. c18-big-emit: one Multipoint of 2^26 + 3 points (thorough also a MultipointM of 2^26 + 5) emitted into counting sinks. rt-large also writes, for each of the 10 multi-vertex types, a part of 2^16 + 7 points followed by a small record. A tenth of the seeded writer stacks is the write-back layer. C04 also runs wfault-c02 (histories in which a finalize failed once, ended by drop, by finalize or by the bulk write_shapes on the same writer): every index entry, read on its own, points at bytes of the .shp that are the header of the record of that rank. C18 also runs wfault-manyparts: shapes of 1025 and 2049 parts written straight to the devices with every one of the first 1200 and last 200 operations of each call (and every seventh in between) failing once or persistently: whenever a write call reports success, the bytes that reached the .shp during the call are record header, type code and exactly the announced size. c02-user-shape (C02, C04): a caller's point-typed shape that keeps its contract but emits its bytes with Write::write_vectored, three records with a finalize after none / the first / the second / the third, with and without index: strict decoder, index check.",
            explanation: "Fault-free configuration of the simulator with must-be-masked transfer schedules: the real writer runs against simulated devices, the bytes are judged by an independent decoder and read back through every reading route of the real reader. Simulated time = device operations (logical_steps); the code under test has no clock.",
            exhaustive: false,
        },
        "C05" => PropMeta {
            level: "exploration",
            rule: "rt-grid: 13 types x parts 1..=6 x points/part 1..=8 x {Direct, BufWriter(7), BufWriter(8192), write-back layer (committed on flush only)} x {with,without shx}, enumerated; rt-large: files of 1023..10000 records, shapes of 1023..2049 parts and of 1023..8193, 65535..70000, 2^17+5, 2^18+5 (thorough: 2^20+5) points per part, around the readers' internal limits and powers of two a block-wise writer may use; rt-seeded: one seeded scenario per run (type, 0..40 shapes via public constructors, swarm-drawn float classes incl. +-0, subnormals, +-inf, sentinels, no-data neighbourhood, NaN in Z/M; finalize placement; ending by drop / finalize+drop / write_shapes; writer and reader stacks; chunk/EINTR schedules on all four devices; by-path routes over pre-existing longer files in 1/16 of the runs). A run is non-trivial if it wrote at least one shape; distinct = distinct (type, per-shape part-length signature, writer stack, call pattern, reader stack) tuples by hash. hw-seeded: seeded writer histories (1..5 shapes, up to 12 calls, finalize anywhere, rejected writes) so that the extreme falls before/after an intermediate finalize; wfault-c05: seeded histories with a one-shot fault on the first device operation of a non-first write_shape (the call fails having transferred nothing), after which the history goes on. A quarter of the multi-vertex shapes reach the writer through Clone::clone() / Clone::clone_from(). rt-large (as for C01): incl. files of exactly 2^16 and 2^17 records whose last shape alone holds the extremes. c05-big-box: one Multipoint of 8 Mi + 2 and one Polyline of 8 Mi + 3 points (thorough: 16 Mi + 2, 4 Mi + 2, 2 Mi + 2), generated procedurally, the last vertex alone holding the maxima: carried box, record box, header box. c05-big-box also hands 10 multi-part types x 12 degenerate part lists (an empty first, middle or last part, one-point parts, nothing but an empty part) to the public constructors, vertices away from the origin: where the constructor accepts the list (it refuses most by panicking, which is not judged), the box of the shape, of its record and of the header are the extremes of its vertices.",
            explanation: "Fault-free configuration of the simulator with must-be-masked transfer schedules: the real writer runs against simulated devices, the bytes are judged by an independent decoder and read back through every reading route of the real reader. Simulated time = device operations (logical_steps); the code under test has no clock. C05 oracle: independent min/max (compared with ==) over the captured vertices against the constructed box, the record box, header bytes 36..100 and the reader\'s header; M range judged only when every measure is real data; no NaN runs.",
            exhaustive: false,
        },
        "C06" => PropMeta {
            level: "exploration",
            rule: "rt-grid: 13 types x parts 1..=6 x points/part 1..=8 x {Direct, BufWriter(7), BufWriter(8192), write-back layer (committed on flush only)} x {with,without shx}, enumerated; rt-large: files of 1023..10000 records, shapes of 1023..2049 parts and of 1023..8193, 65535..70000, 2^17+5, 2^18+5 (thorough: 2^20+5) points per part, around the readers' internal limits and powers of two a block-wise writer may use; rt-seeded: one seeded scenario per run (type, 0..40 shapes via public constructors, swarm-drawn float classes incl. +-0, subnormals, +-inf, sentinels, no-data neighbourhood, NaN in Z/M; finalize placement; ending by drop / finalize+drop / write_shapes; writer and reader stacks; chunk/EINTR schedules on all four devices; by-path routes over pre-existing longer files in 1/16 of the runs). A run is non-trivial if it wrote at least one shape; distinct = distinct (type, per-shape part-length signature, writer stack, call pattern, reader stack) tuples by hash. c03-sweep and foreign-seeded: files from the reference encoder incl. null records. On every well-formed file: the full 13 x 13 matrix of (requested type, file type) for read_as vs convert_shapes_to_vec_of(read()), drained iter_shapes_as for every wrong type, TryFrom<Shape> into all 13 types for every value, shapetype() of value and of type. foreign-seeded / c03-sweep: a quarter of the foreign files (incl. physically permuted ones) are also read by path, read_shapes_as(path) against read_shapes(path) converted. For a quarter of the files the whole matrix is run again on the same records under a header that names another type. For all 14 x 14 ordered pairs the text of the mismatch error spells both types by their names, and ShapeType's Display does. pair-sweep3: after seek(k) on two complete readers, Reader::read() against Reader::read_as::<S>(). For every file of at most 8 shapes, the bulk conversion of its shapes followed by two shapes of two other kinds (all ordered pairs of {null, Point, PointM, Polyline}), and of one shape of the requested type followed by those two: the error names the first mismatch, as the element-wise conversion does.",
            explanation: "Fault-free configuration of the simulator with must-be-masked transfer schedules: the real writer runs against simulated devices, the bytes are judged by an independent decoder and read back through every reading route of the real reader. Simulated time = device operations (logical_steps); the code under test has no clock.",
            exhaustive: false,
        },
        "C03" => PropMeta {
            level: "exploration",
            rule: "c03-sweep: 14 type codes x every combination of present/absent optional M over 3 records x {normal, zero parts, one-vertex parts, zero-vertex parts} x {with, without trailing bytes}, enumerated; foreign-large: 5000 records incl. null records, 1025..2049 parts incl. empty and one-vertex parts, 1024..3000 points per part; foreign-seeded: one seeded file per run from the reference encoder (any of the 14 codes, 0..6 records, null records interleaved, 0..4 parts of 0..7 vertices, any float bit pattern incl. NaN in X/Y, arbitrary stored boxes and record numbers, optional M per record, bytes after the declared length, short-read/EINTR schedules, BufReader capacities). non-trivial = at least one record; distinct = distinct (type, per-record (type, M present, part lengths), order, filler lengths, trailing length) tuples. Files with contiguous records are also read with their index by two successive iterators of one reader (half of the records, then the rest), whatever record numbers they store. With the index: all but two records through next(), the next one asked for as another type, the remaining one through Iterator::last(). With the index on a source whose seek moves and then reports an error once: seek(k) fails, the iteration that follows yields the records from the first or from k. Polygon ring roles are compared with the sign of the exact area wherever the plain double-precision sum has that sign too; the sweep holds rings with a side of 2^-30 and slivers whose x coordinates are 0, 1, 2 units of the smallest subnormal, in both orientations. The same streams decoded record by record through their index (physically permuted ones included) are judged under C03 too. Ring roles of decoded polygons follow the orientation wherever the exact signed area is not zero; rings whose double-precision area (the sum, then its half) rounds to zero or to the other sign are the open known finding C03/ring-role-rounding (the C01 finding seen from a foreign file).",
            explanation: "Stub producer, real consumer: the file comes from the independent reference encoder, the real reader decodes it from a simulated source. Oracle: same record count and order, parts, patch kinds, coordinates bit-identical with absent M reported as NO_DATA and present M normalised, stored box returned as stored, no read beyond the declared length (Direct stack, from the device event log).",
            exhaustive: false,
        },
        "C14" => PropMeta {
            level: "exploration",
            rule: "c14-sweep: 13 types x n=1..4 records of pairwise different sizes x all n! physical orders x {no filler, short filler, filler that looks like a record header}, enumerated; c14-sparse: 13 types x 5 layouts of a sparse source of up to 4 GiB whose records sit at and beyond the 2 GiB boundary, in non-physical index order; foreign-seeded: seeded files with shuffled physical order, random even-length filler (some looking like record headers) before/between/after records, short-read schedules, BufReader capacities. distinct as for C03. A quarter of all scenarios (chosen by content hash) are also written to disk and read by path: read_shapes, ShapeReader::from_path(..).read(), read_shapes_as (the .shx next to the .shp is supplied to each), and typed-by-path is compared with generic-by-path converted (C06). Half of the by-path scenarios are data sets of symbolic links into a store whose files carry other names. iter_shapes().last() on a fresh indexed reader over every layout. foreign-large: indexes of 1025, 4096, 4097, 5000, 8192 and 12288 entries. On files with null records: a typed loop up to its first error, then a second loop on the same reader - together one item per index entry. One item taken, the iterator leaked with mem::forget, then a second iteration: the remaining entries or all. Every indexed file is also iterated through a caller-defined ReadableShape that decodes the whole record as Shape and converts afterwards (the library's own MismatchShapeType after the whole record was consumed), asking for the file's type and for another type: one item per index entry, each its record or the mismatch naming its type.",
            explanation: "The reference encoder places records at arbitrary offsets and writes the matching .shx; the real reader opened with_shx must yield one item per index entry in index order, each equal to the record at that entry, agree with read_nth_shape(i) and shape_count(). Reach counter: seeks issued during indexed iteration.",
            exhaustive: true,
        },
        "C08" => PropMeta {
            level: "exploration",
            rule: "pair-sweep: 13 types x all histories up to length 4 (quick) / 5 (thorough) over {good pair a, good pair b, shape of another type, row missing a field, row with a value of the wrong field type} (a wrong-type shape never first) x ending {drop, write_shapes_and_records} x {Direct, BufWriter(64)}, enumerated completely, by-path route (Writer::from_path over pre-existing longer files, then a neighbouring data set with other rows written to a path that differs only behind a dot inside the file stem; Reader::from_path, shapefile::read) on the length-2 histories without failing rows; for histories without failing row also the complete Reader after seek(k-1), a failing typed pair iteration and seek(k); pair-large: 1025, 4097 and 6000 pairs in one file; pair-seeded: seeded histories up to length 10 with generated shapes and stacks. distinct = distinct (type, history, ending, stack) tuples. Histories without failing row are also read by a complete Reader without index through two successive pair iterations (half of the pairs, then the rest). Two successive pair iterations on one complete Reader, with and without index, the first one by take(k) or by Iterator::nth(k-1). Without index: a seek (refused for want of an index), then the sequential bulk read. (The .dbf never sits on the write-back layer: dbase never flushes its destination.) pair-large rotates seven different shapes of different sizes (a pair taken from another index entry is seen), and the after-seek clause also starts at three quarters of the file.",
            explanation: "The complete Writer runs on three simulated devices. After every call (Direct stack) the three files are scanned physically and independently (records from byte 100, index entries, whole rows after the dbf header + stray bytes); at the end the counts come from the independent decoders and the dbf header, and the complete Reader must return exactly the successfully written pairs, shape i with the row whose idx is i. Histories containing a failing row hit the two known findings listed in known_findings.jsonl.",
            exhaustive: true,
        },
        "C15" => PropMeta {
            level: "exploration",
            rule: "all call sequences up to length 4 (quick) / 5 (thorough; length 6 over the property's own letters iterate / random access / seek / count) over the 20-letter alphabet (21 on the complete reader) {take one item and leak the iterator (mem::forget), on the complete reader a pair iteration with a caller's row type that cannot represent the rows (an honest conversion error), Iterator::last() on a new iterator, random access as a user-defined ReadableShape whose read_from panics (caught by the caller), iterate 0/1/2/all items, Iterator::nth(1) on a new iterator (what skip and step_by call), read_nth_shape(0..=3), read_nth_shape_as::<another type>(0..=1) (a random access that fails), iterate as another type and take one item (an iteration that fails), seek(0..=3), shape_count} on files of n=3 records (plus six configurations with n = 1, 2 and 4 records; the 4-record ones one call shorter), for 12 configurations: {ShapeReader with index, ShapeReader without index, complete Reader with rows carrying their index, complete Reader without index} x {records of pairwise different sizes, records of equal size}, plus 4 configurations (ShapeReader with index, complete Reader) on files re-laid out so that the physical order differs from the index order (reversed with filler; rotated with filler that looks like a record header), enumerated completely (20 + 20^2 + 20^3 + 20^4 histories per 3-record configuration in the quick tier). distinct = distinct (configuration, history) pairs; evaluations = histories executed; logical_steps = reader calls. Two more configurations read files whose records are each followed by 4 bytes of slack that the index entry's length field includes. Two configurations read through a .shp source that cannot seek at all (every seek fails) with the iterating letters only. Four more configurations read the slot layout and the rotated layout through sources that hand out at most 1 or 3 bytes per read call and through BufReaders of 37 and 113 bytes, so that reads come back short inside the filler between records.",
            explanation: "Each history runs on the real reader over in-memory sources; every call's result is checked against a nondeterministic reference model whose state is the set of allowed positions of the next record: fresh / after random access = {0}, after seek(k) = {min(k,n)}, after an iteration that took items from p = {p+taken, 0}. Rows of the complete Reader must carry the index of their shape.",
            exhaustive: true,
        },
        "C09" => PropMeta {
            level: "exploration",
            rule: "c09-sweep: all sequences over {write a, write b, finalize} up to length 4 (quick) / 6 (thorough) x ending {drop, finalize+drop, write_shapes} x 13 types x {with,without index} x {Direct, BufWriter(5), BufWriter(8192), a write-back layer that hands nothing to the device before flush() is called - not on seek, not when dropped}, enumerated completely; hw-seeded: longer seeded histories with varying shapes, rejected writes and masked transfer schedules. distinct = distinct (type, call pattern, index, stack) tuples; all are non-trivial (each executes at least the ending). wfault-c02: seeded workloads with finalize calls anywhere x every device operation of every explicit finalize failed once: what the drop leaves must equal write-all-then-drop (a third of the workloads carry only NaN in Z/M before the first finalize). The sweep runs the histories up to length 4 (plain drop, finalize then drop) also on destinations that already hold 104 bytes of older content, against write-all-then-drop on such destinations. For the types with Z and M the sweep (to length 3) is repeated with shapes lying exactly at the origin. Histories up to length 4 ending in a drop are also run with BufWriter destinations that are only lent to the writer: the devices are compared with write-then-drop right after the writer is dropped. c09-size-ladder: a caller's honest shape of every even size from 4 to 4096 bytes, a finalize, a second record (16 bytes or the same size), a finalize, a third, drop - against the same three records without any finalize, with and without an index, so that the file length a finalize sees takes every value of a range.",
            explanation: "Each history runs on simulated devices with every call bracketed by the device events it caused; final bytes are compared with those of 'same shapes, drop' executed in the same process; after every successful finalize the device content below any buffer must be a complete shapefile (independent decoder); an idle finalize must have an empty event range.",
            exhaustive: true,
        },
        "C10" => PropMeta {
            level: "exploration",
            rule: "c10-sweep: all 13x12 ordered (file type, offered type) pairs x all histories over {write a, write b, finalize} that start with a write, up to length 3 (quick) / 5 (thorough) x every position of the rejected call, enumerated completely; c10-user-shape: for each file type, a user-defined EsriShape (the trait is public) of each of the 13 other type codes - NullShape included, which no built-in shape has - announcing sizes from 0 to u64::MAX; hw-seeded: seeded longer histories; pair-sweep / pair-seeded: the complete writer (the rejected pair must not touch the .dbf either). distinct = distinct (type, call pattern, index, stack) tuples. pair-sweep also runs all histories up to length 3 over {good pair a, good pair b, rejected shape} through a complete Writer built over a ShapeWriter that has already written a shape, compared with the same history without the rejected calls. Odd-length histories over a used ShapeWriter end with write_shapes_and_records offered two pairs of another type (refused as a whole). c10-long: 2100 (thorough also 70000) accepted records with a rejected write after every one of them. c10-bulk-lazy: the consuming bulk write_shapes on a writer that holds a record of another type, handed a lazy iterator announcing usize::MAX (endless), 2^40, 2^31 and 0 further shapes: rejected with the mismatch error naming both types, the files left are those of write + drop.",
            explanation: "The rejected call must return MismatchShapeType{file type, offered type}, have an empty device-event range, and the final files must equal those of the history with the rejected calls deleted.",
            exhaustive: true,
        },
        "C11" => PropMeta {
            level: "fault_enumeration",
            rule: "one unit = one seeded workload (type, 1..5 tagged shapes, 0..3 finalize calls anywhere, Direct or BufWriter stack, with index) run once; then every .shp cut point (every event boundary and every byte inside every write) is read without index, and every (shp cut, shx cut) pair - all of them in the thorough tier, an evenly strided sample of at most 20000 per workload in the quick tier - is read with index (sequential + random access at every entry). evaluations = crash states judged; distinct = distinct (workload, shp image hash, shx image hash) triples actually read; duplicates are skipped and counted in reach. crash-tear: seeded files of 20..420 small records (so that the header length field changes in more than its last byte), every crash state inside the header rewrites of finalize/drop, read without and with the (complete) index; crash-path: 28 deterministic by-path scenarios on the real file system: a (longer) shapefile already exists at the path, ShapeWriter::from_path writes new shapes with an optional finalize and then crashes (mem::forget: buffered bytes are lost). With the index, after random access at every entry (the last ones may fail on a cut record) the same reader is iterated again and drained completely: the Ok items, errors skipped, must still be shapes 0..j in order. crash-big: a two-point line and a 4.2 M-point line (a 64 MiB record), crash images cut near the start, in the middle and near the end of the large record with a complete index. One crash image in 16 (by content) is also written to a file and read by path. crash-range-tear: 5 types x a first shape at 1e305 / +-inf / +-MAX x a second near 1.99 / -1.5 / 1 / 1.25, a finalize after each: every byte cut inside the header rewrites, so that a torn 8-byte range mixes the bytes of two very different doubles (NaN, infinite and subnormal mixtures).",
            explanation: "Crash states are reconstructed from the recorded event log, not by re-running the writer. Oracle: Ok items before the first Err are a prefix of the shapes written; random access returns shape i or an error; shapes written before a finalize whose Flush on the .shp is inside the prefix are all readable without index.",
            exhaustive: false,
        },
        "C12" => PropMeta {
            level: "fault_enumeration",
            rule: "one unit = one seeded workload (write_shape / finalize retried at once while it fails, up to 3 times / finalize whose failure is ignored and followed by further writes / drop; Direct or BufWriter stack); golden run, then for every operation k issued on each destination: one-shot error, persistent error, Ok(0), EINTR at k; two and three consecutive one-shot errors starting at k (the retry fails too); disk-full at ~150 capacities per destination; every short-write chunk size from 1 byte upward with and without EINTR; 6 seeded mixed schedules. distinct = distinct (history, fault class, per-call result pattern) triples; runs whose fault never fired are not counted as distinct. c12-big-file: 34 user-defined shapes of 64 MiB on a sparse sink, a finalize at 2 GiB that fails once at its k-th operation (k = 1..6) and is not retried, further writes, drop: same file as the undisturbed run. wfault-c02: seeded workloads with finalize calls anywhere, in a third of them a shape of another type offered (rejected) after every finalize, every device operation of every explicit finalize failed once: the files left by the drop equal those of the undisturbed run. Every seek of the undisturbed run is also failed in the way 'moved, then reported an error'. wfault-large: a 70000-point polyline between two small ones and a finalize, written straight to the devices; the first 40 and last 200 .shp operations of every call and every .shx operation fail once, one-shot and persistently. c12-stderr-gone: the process environment as a fault - the same binary run as a child process whose standard error stream is a pipe without a reader (closed before the child is released), running a small history with every device operation failing in turn, persistently and once, and reporting its verdicts on standard output. wfault-large also covers shapes of 1025 and 2049 parts (the first 1200 operations of each call, the last 200, every seventh in between). Every seek of the undisturbed run also fails once with each of the 40 error kinds of world::err_kind (Unsupported, NotSeekable, OutOfMemory, WouldBlock, TimedOut, ..; plain and moved-then-failed alternate), every other operation with two of them chosen by the seed.",
            explanation: "Surfacing is judged with the API-call brackets: the call whose device-event range contains the failed operation must return Err (exact also below a BufWriter). Whenever every fault of a run landed inside finalize calls (first attempts, retries, or finalizes that are not retried) and none in a write or in the drop, the final files must equal the golden ones - the history always ends with the finalize run by Drop. Masked schedules (short writes, EINTR on writes) must leave golden bytes. Drop with a persistently failing destination must not panic.",
            exhaustive: false,
        },
        "C07" | "C17" => PropMeta {
            level: "fault_enumeration",
            rule: "corrupt: one unit = one seeded base file from the real writer (any type, 1..4 records, 1..3 parts) with its .shx and a valid .dbf; enumerated per base file: every 32-bit field of .shp and .shx (header length/version/type, record number/length/type, part and point counts, every part offset, every patch kind, index length/type, every index offset/length) x ~25 boundary values (0, +-1, i32::MIN/MAX, 2^27..2^30 and neighbours, doubles/halves of the original), every truncation length of both files, extensions by 1/7/8/100 bytes and by a copy of the records; sampled per base file: 150 field pairs, 150 bit flips, 40 garbage bodies behind a valid file code. ladder: for every multi-vertex type and the index, declared counts 10^3..2^31-1 (incl. 2^27, 2^28, 2^29 whose byte sizes wrap 32 bits) with mutually consistent record/file lengths and either no data behind or exactly 1024/1025/2048/5000 elements (4096/4097/9000 index entries) really present, and for the multipart types counts that need no x,y at all (the only part starts at, or one before, the end of the points; no part), so that the Z / M arrays are reached with nothing read; plus valid fully backed files of unusual structure (3000 two-point parts, 2049 patches, 1500 rings, 8193 points, 5000 records). Every case drives ~45 reader calls (open, header, count, iterate generic/typed drained, size_hint, read_nth and seek at 0,1,n-1,n,usize::MAX each followed by iteration, read, read_as, complete Reader iterate/seek/read). distinct = distinct (type, field id + value class, outcome signature) triples. The ladder also holds each declared count stored behind a small complete record and listed first by the index (an indexed iteration has to seek), and a Point file of 400 000 null records followed by one point. Indexes declaring unbacked entries also stand next to a .shp header declaring room for as many records. Every case also drives nth(usize::MAX) after one item, skip(usize::MAX), step_by(usize::MAX) and last() on readers that are not at their start. One case in 64 is also read by path under names that are not valid UTF-8, without and with an index next to it. The complete Reader is also driven without index (read, read_as), and the ladder holds a .dbf whose header declares 10^3..2^32-1 rows with one present. The ladder also holds, for every multi-vertex type, a shape without any point whose stored box and ranges are all NaN. ladder unit 16: the environment as input - a small valid data set opened by path (ShapeReader::from_path, read_shapes, Reader::from_path; without its .shx, with an upper-case .SHX, with its .shx) in a directory holding 20 000 unrelated files: the memory requested is bounded by the bytes of the data set.",
            explanation: "Each reader call runs under catch_unwind (overflow checks and debug assertions on) and between begin/end of the counting allocator; iterators are drained through an item cap of (len(shp)+len(shx))/4+16. Workers run under an address-space limit with a watchdog: a worker that dies or stalls is pinpointed to the case and reported as abort/hang. C17 bound per call: peak live bytes and largest single request <= 64 x input bytes + 64 KiB.",
            exhaustive: false,
        },
        "C13" => PropMeta {
            level: "fault_enumeration",
            rule: "one unit = one seeded valid file from the real writer (every type, 1..4 tagged shapes); every truncation length 0..=len of the .shp (read with and without index) and of the .shx; for each of 3 reader stacks (Direct, small BufReader, BufReader(8192)) x {with, without index}: every operation k of an undisturbed full traversal (open, iterate, read_nth every i) failed one-shot with a rotating error kind and with EINTR; every short-read chunk size x {no EINTR, EINTR every 2nd, every 5th call}; 8 seeded mixed schedules; the same fault sweeps on two re-laid-out versions of each file (physical order != index order, so that the indexed traversal seeks); rfault-large: 8 files whose middle record has a part of 1025..2000 points or 1030 parts, with strides away from record boundaries (11 bytes / 37 operations; 101 / 409 in the quick tier). distinct = distinct (file, fault/truncation, route) triples by hash. size_hint() is called after every item, errors included (what collect() does). The traversal ends with Iterator::last() and two more items; on the complete file read from a source that never fails no iteration item and no random access to an existing entry may be an error. Three re-laid-out versions of each file (reversed with filler; rotated with header-like filler; last record first and the others contiguous) are cut at every length and read with the complete index: record i is returned iff it lies wholly inside the retained bytes. Every seek of the traversals is also failed in the way 'moved, then reported an error'. For every cut of the .shp (layout as written) and every source plan, the complete reader over the same source with a whole .dbf whose rows the caller's row type cannot represent (every row fails to convert): the cut record, or the failing read, is still reported as that I/O error by the call in progress. Every seek of the traversal also fails once with each of the 40 error kinds of world::err_kind (plain and moved-then-failed alternate), every other operation with one more kind chosen by its position.",
            explanation: "Every reader call of the traversal is bracketed with its device events. Oracles: only genuine shapes at their positions; records wholly inside the retained bytes are returned; the cut record is Error::IoError; a hard source failure surfaces from the call in progress with that error; short reads / EINTR leave every result identical to the undisturbed traversal.",
            exhaustive: false,
        },
        _ => PropMeta { level: "exploration", rule: "", explanation: "", exhaustive: false },
    }
}
