//! The serialisable scenario (one exactly repeatable execution) and the unit protocol shared by
//! all families.

use crate::core::*;
use serde::{Deserialize, Serialize};

#[derive(Clone, Debug, Serialize, Deserialize)]
pub enum Scenario {
    Rt(crate::fam_rt::RtScn),
    HistW(crate::fam_histw::HwScn),
    FakeOffer(crate::fam_histw::FakeOfferScn),
    UserShape(crate::fam_histw::UserShapeScn),
    Crash(crate::fam_crash::CrashScn),
    CrashPath(crate::fam_crash::CrashPathScn),
    CrashBig(crate::fam_crash::CrashBigScn),
    BigBox(crate::fam_rt::BigBoxScn),
    BigEmit(crate::fam_rt::BigEmitScn),
    WFault(crate::fam_wfault::WfScn),
    RFault(crate::fam_rfault::RfScn),
    Corrupt(crate::fam_corrupt::CorScn),
    Foreign(crate::fam_foreign::ForScn),
    Sparse(crate::fam_foreign::SparseScn),
    HistR(crate::fam_histr::HrScn),
    Pair(crate::fam_pair::PairScn),
}

impl Scenario {
    pub fn family(&self) -> &'static str {
        match self {
            Scenario::Rt(_) => "RT",
            Scenario::HistW(_) => "HIST-W",
            Scenario::FakeOffer(_) => "HIST-W-USER-SHAPE",
            Scenario::UserShape(_) => "HIST-W-USER-SHAPE",
            Scenario::Crash(_) => "CRASH",
            Scenario::CrashPath(_) => "CRASH-PATH",
            Scenario::CrashBig(_) => "CRASH-BIG",
            Scenario::BigBox(_) => "RT-BIG-BOX",
            Scenario::BigEmit(_) => "RT-BIG-EMIT",
            Scenario::WFault(_) => "WFAULT",
            Scenario::RFault(_) => "RFAULT",
            Scenario::Corrupt(_) => "CORRUPT",
            Scenario::Foreign(_) => "FOREIGN",
            Scenario::Sparse(_) => "FOREIGN-SPARSE",
            Scenario::HistR(_) => "HIST-R",
            Scenario::Pair(_) => "PAIR",
        }
    }
}

/// Execute a scenario: a pure function of the scenario and the code under test.
pub fn execute(s: &Scenario, ctx: &mut Ctx) {
    match s {
        Scenario::Rt(x) => crate::fam_rt::execute(x, ctx),
        Scenario::HistW(x) => crate::fam_histw::execute(x, ctx),
        Scenario::FakeOffer(x) => crate::fam_histw::execute_fake(x, ctx),
        Scenario::UserShape(x) => crate::fam_histw::execute_user(x, ctx),
        Scenario::Crash(x) => crate::fam_crash::execute(x, ctx),
        Scenario::CrashPath(x) => crate::fam_crash::execute_path(x, ctx),
        Scenario::CrashBig(x) => crate::fam_crash::execute_big(x, ctx),
        Scenario::BigBox(x) => crate::fam_rt::execute_bigbox(x, ctx),
        Scenario::BigEmit(x) => crate::fam_rt::execute_bigemit(x, ctx),
        Scenario::WFault(x) => crate::fam_wfault::execute(x, ctx),
        Scenario::RFault(x) => crate::fam_rfault::execute(x, ctx),
        Scenario::Corrupt(x) => crate::fam_corrupt::execute(x, ctx),
        Scenario::Foreign(x) => crate::fam_foreign::execute(x, ctx),
        Scenario::Sparse(x) => crate::fam_foreign::execute_sparse(x, ctx),
        Scenario::HistR(x) => crate::fam_histr::execute(x, ctx),
        Scenario::Pair(x) => crate::fam_pair::execute(x, ctx),
    }
}

#[derive(Clone, Copy, Debug, PartialEq, Eq)]
pub enum Tier {
    Quick,
    Thorough,
}

impl Tier {
    pub fn name(&self) -> &'static str {
        match self {
            Tier::Quick => "quick",
            Tier::Thorough => "thorough",
        }
    }
}

#[derive(Clone, Debug, Serialize, Deserialize)]
pub struct Found {
    pub phase: String,
    pub unit: u64,
    pub case: u64,
    pub scenario: Scenario,
    pub fails: Vec<Fail>,
}

/// Control block of one unit of work.
pub struct UnitCtl {
    pub prop: String,
    pub phase: String,
    pub unit: u64,
    /// print "K <case>" before each case (pinpoint mode, after a worker died)
    pub report_cases: bool,
    /// do not execute: return the scenario of this case instead
    pub materialise: Option<u64>,
    pub materialised: Option<Scenario>,
    pub case_no: u64,
    pub found: Vec<Found>,
    pub stop: bool,
    /// when the last progress line was written (heartbeat: a long unit is not a stalled one)
    pub last_beat: std::time::Instant,
}

impl UnitCtl {
    pub fn new(prop: &str, phase: &str, unit: u64) -> UnitCtl {
        UnitCtl {
            prop: prop.into(),
            phase: phase.into(),
            unit,
            report_cases: false,
            materialise: None,
            materialised: None,
            case_no: 0,
            found: vec![],
            stop: false,
            last_beat: std::time::Instant::now(),
        }
    }
    /// Call before executing a case. Returns false if the case must not be executed.
    pub fn before_case(&mut self, mk: impl FnOnce() -> Scenario) -> bool {
        let n = self.case_no;
        self.case_no += 1;
        if self.stop {
            return false;
        }
        if n % 64 == 0 && self.last_beat.elapsed().as_secs() >= 5 {
            // heartbeat for the watchdog; never influences what is executed
            use std::io::Write;
            println!("H");
            let _ = std::io::stdout().flush();
            self.last_beat = std::time::Instant::now();
        }
        if self.report_cases {
            use std::io::Write;
            println!("K {}", n);
            let _ = std::io::stdout().flush();
        }
        if let Some(m) = self.materialise {
            if n == m {
                self.materialised = Some(mk());
                self.stop = true;
            }
            return false;
        }
        true
    }
    /// Record the fails of the case just executed (only those of the property being checked,
    /// plus harness errors). Drains `ctx.fails`.
    pub fn after_case(&mut self, ctx: &mut Ctx, mk: impl FnOnce() -> Scenario) {
        if ctx.fails.is_empty() {
            return;
        }
        let mine: Vec<Fail> = ctx.fails.drain(..).filter(|f| f.prop == self.prop || f.prop == "HARNESS").collect();
        if mine.is_empty() {
            return;
        }
        if self.found.len() < 8 {
            self.found.push(Found { phase: self.phase.clone(), unit: self.unit, case: self.case_no - 1, scenario: mk(), fails: mine });
        }
    }
}
