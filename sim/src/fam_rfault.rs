//! Family RFAULT (C13): truncated, failing, interrupting and short-reading sources.

use crate::core::*;
use crate::gen::*;
use crate::geom::*;
use crate::prng::Rng;
use crate::rd::diff_read;
use crate::refcodec::decode_layout;
use crate::scn::{Scenario, UnitCtl};
use crate::world::*;
use crate::wrun::*;
use serde::{Deserialize, Serialize};
use shapefile::dbase;
use shapefile::ShapeReader;

#[derive(Clone, Debug, Serialize, Deserialize)]
pub enum RfKind {
    /// the .shp keeps only its first `len` bytes
    TruncShp(usize),
    /// the .shx keeps only its first `len` bytes
    TruncShx(usize),
    /// source faults / schedules during a full traversal
    Plan(Plan),
}

#[derive(Clone, Debug, Serialize, Deserialize)]
pub struct RfScn {
    /// fault-free producer of the valid file
    pub w: WProg,
    pub kind: RfKind,
    pub with_shx: bool,
    pub rstack: StackCfg,
    /// 0 = the file as the writer left it; 1, 2 = re-laid out (physical order != index order,
    /// filler between records), so that an indexed traversal has to seek; with_shx only
    #[serde(default)]
    pub layout: u8,
}

/// The same records in another physical order (see fam_histr::relayout); `bounds` are not kept.
pub fn relaid(f: &ValidFile, layout: u8) -> ValidFile {
    let (shp, shx) = crate::fam_histr::relayout(f, layout);
    // where each record (in index order) lies in the re-laid-out file: the offset of its entry,
    // its own length
    let bounds = (0..f.bounds.len())
        .map(|i| {
            let o = 100 + 8 * i;
            let off = i32::from_be_bytes([shx[o], shx[o + 1], shx[o + 2], shx[o + 3]]) as usize * 2;
            (off, off + (f.bounds[i].1 - f.bounds[i].0))
        })
        .collect();
    ValidFile { shp, shx, expected: f.expected.clone(), bounds }
}

pub fn generate_file(r: &mut Rng) -> WProg {
    let ty = *r.pick(&TYPES);
    let mut k = ShapeKnobs::draw(r);
    k.max_parts = k.max_parts.min(3);
    k.max_pts = k.max_pts.min(6);
    let n = r.usize(1, 4);
    let mut shapes: Vec<ShapeSpec> = (0..n).map(|_| gen_spec(r, ty, &k)).collect();
    for (i, s) in shapes.iter_mut().enumerate() {
        tag_spec(s, i);
    }
    WProg { calls: (0..n).map(WCall::W).collect(), shapes, others: vec![], ending: Ending::Drop, with_shx: true, stack: StackCfg::Direct }
}

pub struct ValidFile {
    pub shp: Vec<u8>,
    pub shx: Vec<u8>,
    pub expected: Vec<Geom>,
    /// (start, end) byte offsets of each record (header included)
    pub bounds: Vec<(usize, usize)>,
}

pub fn produce(w: &WProg) -> Option<ValidFile> {
    let world = World::new(Plan::default());
    let run = run_writer(&world, w);
    if run.build_panic.is_some() || run.marks.iter().any(|m| !m.res.is_ok()) {
        return None;
    }
    let wb = world.borrow();
    let shp = wb.data(SHP).to_vec();
    let shx = wb.data(SHX).to_vec();
    let dec = decode_layout(&shp).ok()?;
    let bounds = dec.recs.iter().map(|r| (r.offset, r.offset + 8 + 2 * r.content_words as usize)).collect();
    let expected = run.written.iter().map(|i| run.geoms[*i].normalised_for_read()).collect();
    Some(ValidFile { shp, shx, expected, bounds })
}

/// One reader call of a traversal, with the device events it caused.
#[derive(Clone, Debug)]
pub struct RMark {
    pub call: String,
    pub first_ev: usize,
    pub end_ev: usize,
    /// None = the call returned "nothing" (iterator end / index out of range)
    pub res: Option<Item>,
    pub panic: Option<PanicInfo>,
}

/// Full traversal: open, iterate to the end (stopping after the first Err), random access at
/// every index. Every call is bracketed with its device events.
pub fn traverse(world: &WorldRef, with_shx: bool, rstack: StackCfg, n_expected: usize) -> Vec<RMark> {
    let evs = |w: &WorldRef| w.borrow().log.len();
    let mut marks = Vec::new();
    let first = evs(world);
    let opened = crate::rd::open(world, with_shx, rstack);
    let mut rdr = match opened {
        crate::rd::Open::Ok(r) => {
            marks.push(RMark { call: "open".into(), first_ev: first, end_ev: evs(world), res: None, panic: None });
            r
        }
        crate::rd::Open::Err(e) => {
            marks.push(RMark { call: "open".into(), first_ev: first, end_ev: evs(world), res: Some(Err(e)), panic: None });
            return marks;
        }
        crate::rd::Open::Panic(p) => {
            marks.push(RMark { call: "open".into(), first_ev: first, end_ev: evs(world), res: None, panic: Some(p) });
            return marks;
        }
    };
    // sequential iteration, call by call
    let cap = n_expected + 4;
    let r = guarded(|| {
        let mut out = Vec::new();
        let mut it = rdr.iter_shapes();
        for k in 0..cap {
            let first = evs(world);
            let x = it.next();
            // what collect() and the adaptors do after every item, an error included
            let _ = it.size_hint();
            let end = evs(world);
            let res = x.map(|x| x.map(|s| capture(&s)).map_err(|e| classify(&e)));
            // with an index the iterator can go on to the next entry after an error (and a
            // caller may well do so): whatever it then yields at rank k must be record k
            let stop = res.is_none() || (!with_shx && !matches!(res, Some(Ok(_))));
            out.push(RMark { call: format!("next#{}", k), first_ev: first, end_ev: end, res, panic: None });
            if stop {
                break;
            }
        }
        out
    });
    match r {
        Ok(v) => marks.extend(v),
        Err(p) => {
            marks.push(RMark { call: "next".into(), first_ev: 0, end_ev: 0, res: None, panic: Some(p) });
            return marks;
        }
    }
    if with_shx {
        for i in 0..n_expected + 1 {
            let first = evs(world);
            let r = crate::rd::nth_generic(&mut rdr, i);
            let end = evs(world);
            match r {
                Ok(x) => marks.push(RMark { call: format!("read_nth({})", i), first_ev: first, end_ev: end, res: x, panic: None }),
                Err(p) => {
                    marks.push(RMark { call: format!("read_nth({})", i), first_ev: first, end_ev: end, res: None, panic: Some(p) });
                    return marks;
                }
            }
        }
    }
    // after the random accesses (the last of which may have failed), iterate once more: whatever
    // happened before, an item of rank k is record k or an error - never another record
    let r = guarded(|| {
        let mut out = Vec::new();
        let mut it = rdr.iter_shapes();
        for k in 0..cap {
            let first = evs(world);
            let x = it.next();
            let _ = it.size_hint();
            let end = evs(world);
            let res = x.map(|x| x.map(|s| capture(&s)).map_err(|e| classify(&e)));
            let stop = !matches!(res, Some(Ok(_)));
            out.push(RMark { call: format!("again#{}", k), first_ev: first, end_ev: end, res, panic: None });
            if stop {
                break;
            }
        }
        out
    });
    match r {
        Ok(v) => marks.extend(v),
        Err(p) => {
            marks.push(RMark { call: "again".into(), first_ev: 0, end_ev: 0, res: None, panic: Some(p) });
            return marks;
        }
    }
    // every random access directly followed by a short iteration: after a successful read_nth(i)
    // the items of rank 0 and 1 are records 0 and 1 (or errors); after a failed one they may
    // also be the records the previous iteration had not consumed (see genuine_only)
    for i in 0..n_expected {
        let first = evs(world);
        let r = crate::rd::nth_generic(&mut rdr, i);
        let end = evs(world);
        match r {
            Ok(x) => marks.push(RMark { call: format!("read_nth({})", i), first_ev: first, end_ev: end, res: x, panic: None }),
            Err(p) => {
                marks.push(RMark { call: format!("read_nth({})", i), first_ev: first, end_ev: end, res: None, panic: Some(p) });
                return marks;
            }
        }
        let r = guarded(|| {
            let mut out = Vec::new();
            let mut it = rdr.iter_shapes();
            for k in 0..2usize {
                let first = evs(world);
                let x = it.next();
                let _ = it.size_hint();
                let end = evs(world);
                let res = x.map(|x| x.map(|s| capture(&s)).map_err(|e| classify(&e)));
                let stop = res.is_none();
                out.push(RMark { call: format!("again#{}", k), first_ev: first, end_ev: end, res, panic: None });
                if stop {
                    break;
                }
            }
            out
        });
        match r {
            Ok(v) => marks.extend(v),
            Err(p) => {
                marks.push(RMark { call: "again".into(), first_ev: 0, end_ev: 0, res: None, panic: Some(p) });
                return marks;
            }
        }
    }
    // Iterator::last() (everything is consumed, only the last record is returned), then two more items
    let first = evs(world);
    let r = guarded(|| rdr.iter_shapes().last().map(|x| x.map(|s| capture(&s)).map_err(|e| classify(&e))));
    let end = evs(world);
    match r {
        Ok(res) => marks.push(RMark { call: "last".into(), first_ev: first, end_ev: end, res, panic: None }),
        Err(p) => {
            marks.push(RMark { call: "last".into(), first_ev: first, end_ev: end, res: None, panic: Some(p) });
            return marks;
        }
    }
    let r = guarded(|| {
        let mut out = Vec::new();
        let mut it = rdr.iter_shapes();
        for k in 0..2usize {
            let first = evs(world);
            let x = it.next();
            let _ = it.size_hint();
            let end = evs(world);
            let res = x.map(|x| x.map(|s| capture(&s)).map_err(|e| classify(&e)));
            let stop = res.is_none();
            out.push(RMark { call: format!("again#{}", k), first_ev: first, end_ev: end, res, panic: None });
            if stop {
                break;
            }
        }
        out
    });
    match r {
        Ok(v) => marks.extend(v),
        Err(p) => {
            marks.push(RMark { call: "again".into(), first_ev: 0, end_ev: 0, res: None, panic: Some(p) });
            return marks;
        }
    }
    marks
}

/// Every returned shape is a genuine record of the file at the rank the reader's documented
/// positions allow (C15: an iteration begins at the first record after `open` and after a
/// successful random access; a further iteration, or one after a random access that *failed*,
/// yields either the records not yet consumed or all records from the first). The model keeps
/// the set of start positions still compatible with what was returned; with an index an item
/// that is an error still consumes its entry.
fn genuine_only(ctx: &mut Ctx, marks: &[RMark], f: &ValidFile, what: &str) {
    let never = |_: usize, _: usize| false;
    let mut starts: Vec<usize> = vec![0];
    let mut consumed = 0usize;
    for m in marks {
        if let Some(p) = &m.panic {
            ctx.fail("C13", "panic", p.site(), format!("{}: {} panicked: {}", what, m.call, p.text()));
        }
        let site = m.call.split(['#', '(']).next().unwrap_or("").to_string();
        if let Some(k) = m.call.strip_prefix("next#").or_else(|| m.call.strip_prefix("again#")) {
            let Ok(k) = k.parse::<usize>() else { continue };
            if k == 0 {
                let mut ns = vec![0usize];
                for s in &starts {
                    if !ns.contains(&(s + consumed)) {
                        ns.push(s + consumed);
                    }
                }
                starts = ns;
                consumed = 0;
            }
            match &m.res {
                Some(Ok(g)) => {
                    let ok: Vec<usize> = starts.iter().copied().filter(|s| f.expected.get(s + k).map_or(false, |e| diff_read(e, g, s + k, &never).is_none())).collect();
                    if ok.is_empty() {
                        let s0 = starts[0];
                        let detail = match f.expected.get(s0 + k) {
                            None => format!("{}: {} returned a shape but the file has {}", what, m.call, f.expected.len()),
                            Some(e) => format!("{}: {} differs from the original shape {}: {}{}", what, m.call, s0 + k, diff_read(e, g, s0 + k, &never).unwrap_or_default(), if starts.len() > 1 { format!(" (nor is it the record of any other permitted start {:?})", starts) } else { String::new() }),
                        };
                        ctx.fail("C13", "invented-shape", site, detail);
                    } else {
                        starts = ok;
                    }
                    consumed = k + 1;
                }
                Some(Err(_)) => consumed = k + 1,
                None => {}
            }
        } else if m.call == "last" {
            // the last record (if the iteration could start before the end); afterwards a further
            // iteration starts at the end or at the first record; after an error anywhere it could
            if let Some(Ok(g)) = &m.res {
                let n = f.expected.len();
                if n == 0 || diff_read(&f.expected[n - 1], g, n - 1, &never).is_some() {
                    ctx.fail("C13", "invented-shape", site, format!("{}: last() returned a shape that is not the last record", what));
                }
                starts = vec![0, f.expected.len()];
            } else {
                let mut ns = vec![0usize, f.expected.len()];
                for s in &starts {
                    for c in 0..=f.expected.len() {
                        if !ns.contains(&(s + consumed + c)) {
                            ns.push(s + consumed + c);
                        }
                    }
                }
                starts = ns;
            }
            consumed = 0;
        } else if let Some(i) = m.call.strip_prefix("read_nth(").and_then(|s| s.trim_end_matches(')').parse::<usize>().ok()) {
            match &m.res {
                Some(Ok(g)) => {
                    match f.expected.get(i) {
                        None => ctx.fail("C13", "invented-shape", site, format!("{}: {} returned a shape but the file has {}", what, m.call, f.expected.len())),
                        Some(e) => {
                            if let Some(d) = diff_read(e, g, i, &never) {
                                ctx.fail("C13", "invented-shape", site, format!("{}: {} differs from the original shape {}: {}", what, m.call, i, d));
                            }
                        }
                    }
                    starts = vec![0];
                    consumed = 0;
                }
                _ => {
                    let mut ns = vec![0usize];
                    for s in &starts {
                        if !ns.contains(&(s + consumed)) {
                            ns.push(s + consumed);
                        }
                    }
                    starts = ns;
                    consumed = 0;
                }
            }
        }
    }
}

/// The complete reader over the same (cut or failing) .shp with a whole .dbf whose rows the caller's
/// row type cannot represent: every row fails to convert, and still a record that is cut, or a read
/// of the .shp that fails, is reported as that I/O error by the call in progress - the trouble of
/// the row does not take its place. `cut`: the rank of the record the cut falls in, if any.
fn pair_route(ctx: &mut Ctx, ty: i32, world: &WorldRef, with_shx: bool, rstack: StackCfg, n: usize, cut: Option<usize>, what: &str) {
    let crate::rd::Open::Ok(rdr) = crate::rd::open(world, with_shx, rstack) else { return };
    let Ok(table) = dbase::Reader::new(std::io::Cursor::new(crate::fam_histr::make_dbf(n))) else { return };
    let mut full = shapefile::Reader::new(rdr, table);
    let evs = |w: &WorldRef| w.borrow().log.len();
    // (first event, end event, item class: None = end, Some(Ok(())) = a pair, Some(Err(e)))
    let r = guarded(|| {
        let mut out: Vec<(usize, usize, Option<Result<(), RErr>>)> = Vec::new();
        crate::on_type!(ty, S => {
            let mut it = full.iter_shapes_and_records_as::<S, crate::fam_histr::BadRow>();
            for _ in 0..n + 2 {
                let first = evs(world);
                let x = it.next();
                let end = evs(world);
                let cls = x.map(|x| x.map(|_| ()).map_err(|e| classify(&e)));
                let stop = !matches!(cls, Some(Err(RErr::Dbase(_))));
                out.push((first, end, cls));
                if stop {
                    break;
                }
            }
        }, ());
        out
    });
    let items = match r {
        Ok(v) => v,
        Err(p) => {
            ctx.fail("C13", "panic", p.site(), format!("{}: the complete reader with a row type that cannot represent the rows: {}", what, p.text()));
            return;
        }
    };
    ctx.stats.reach("pair-route-with-unrepresentable-rows");
    if let Some(j) = cut {
        match items.get(j).map(|x| &x.2) {
            Some(Some(Err(RErr::Io(_)))) => {}
            other => ctx.fail("C13", "cut-record-is-io-error", "pair-bad-row", format!("{}: the complete reader (rows that do not convert): the cut record {} was reported as {:?}", what, j, other)),
        }
    }
    let wb = world.borrow();
    for (ei, e) in wb.log.iter().enumerate() {
        let Some(k) = e.err else { continue };
        if (e.kind == OpKind::Read && k == std::io::ErrorKind::Interrupted) || (e.kind == OpKind::Seek && e.fault.is_none()) {
            continue;
        }
        let Some(it) = items.iter().find(|(a, b, _)| ei >= *a && ei < *b) else { continue };
        if it.2 != Some(Err(RErr::Io(format!("{:?}", k)))) {
            ctx.fail("C13", "source-error-surfaces", format!("pair-bad-row:{}:{:?}", DEV_NAMES[e.dev as usize], e.kind), format!("{}: the complete reader (rows that do not convert): {:?} on {} failed with {:?} during a next() that returned {:?}", what, e.kind, DEV_NAMES[e.dev as usize], k, it.2));
        }
    }
}

fn is_io(res: &Option<Item>) -> bool {
    matches!(res, Some(Err(RErr::Io(_))))
}

pub fn run_case(scn: &RfScn, f: &ValidFile, ctx: &mut Ctx) {
    let n = f.expected.len();
    match &scn.kind {
        RfKind::TruncShp(len) if scn.layout != 0 => {
            // a re-laid-out file cut at `len`, read with its (complete) index: record i is returned iff
            // it lies wholly inside the retained bytes - wherever the cut falls among the others - and is
            // an I/O error otherwise
            let len = (*len).min(f.shp.len());
            let world = World::with_data(Plan::default(), f.shp[..len].to_vec(), f.shx.clone(), vec![]);
            let marks = traverse(&world, true, scn.rstack, n);
            ctx.stats.absorb_world(&world.borrow());
            let what = format!("re-laid-out shp (layout {}) truncated to {} of {} bytes, with index", scn.layout, len, f.shp.len());
            genuine_only(ctx, &marks, f, &what);
            if marks.iter().any(|m| m.panic.is_some()) || len < 100 {
                return;
            }
            ctx.stats.reach("relaid-shp-cut");
            let nexts: Vec<&RMark> = marks.iter().filter(|m| m.call.starts_with("next#")).collect();
            for i in 0..n {
                let whole = f.bounds[i].1 <= len;
                match (whole, nexts.get(i).map(|m| &m.res)) {
                    (true, Some(Some(Ok(_)))) => {}
                    (false, Some(r)) if is_io(r) => {}
                    (true, other) => {
                        ctx.fail("C13", "whole-records-returned", "iter-relaid", format!("{}: record {} (bytes {}..{}) lies wholly inside the retained bytes but iteration gave {:?}", what, i, f.bounds[i].0, f.bounds[i].1, other.map(|r| r.as_ref().map(item_short))));
                        return;
                    }
                    (false, other) => {
                        ctx.fail("C13", "cut-record-is-io-error", "iter-relaid", format!("{}: record {} (bytes {}..{}) is cut but iteration gave {:?}", what, i, f.bounds[i].0, f.bounds[i].1, other.map(|r| r.as_ref().map(item_short))));
                        return;
                    }
                }
            }
        }
        RfKind::TruncShp(len) => {
            let len = (*len).min(f.shp.len());
            let world = World::with_data(Plan::default(), f.shp[..len].to_vec(), f.shx.clone(), vec![]);
            let marks = traverse(&world, scn.with_shx, scn.rstack, n);
            ctx.stats.absorb_world(&world.borrow());
            let what = format!("shp truncated to {} of {} bytes, {}", len, f.shp.len(), if scn.with_shx { "with index" } else { "without index" });
            genuine_only(ctx, &marks, f, &what);
            if marks.iter().any(|m| m.panic.is_some()) {
                return;
            }
            let region = if len < 100 { "file-header" } else { match f.bounds.iter().find(|(s, e)| len >= *s && len < *e) {
                Some((s, _)) if len < s + 8 => "record-header",
                Some((s, _)) if len < s + 12 => "type-code",
                Some(_) => "record-body",
                None => "complete",
            } };
            ctx.stats.reach(&format!("shp-cut:{}", region));
            let open = &marks[0];
            if len < 100 {
                if !is_io(&open.res) {
                    ctx.fail("C13", "cut-header-is-io-error", "open", format!("{}: open returned {:?}", what, open.res.as_ref().map(item_short)));
                }
                return;
            }
            if open.res.is_some() {
                ctx.fail("C13", "open-valid-header", "open", format!("{}: open failed: {:?}", what, open.res.as_ref().map(item_short)));
                return;
            }
            // all records wholly contained in the retained bytes are returned, then the cut one is an I/O error
            let whole = f.bounds.iter().filter(|(_, e)| *e <= len).count();
            let nexts: Vec<&RMark> = marks.iter().filter(|m| m.call.starts_with("next#")).collect();
            for i in 0..whole {
                if !matches!(nexts.get(i).map(|m| &m.res), Some(Some(Ok(_)))) {
                    ctx.fail("C13", "whole-records-returned", "iter", format!("{}: record {} lies wholly inside the retained bytes but iteration gave {:?}", what, i, nexts.get(i).map(|m| m.res.as_ref().map(item_short))));
                    return;
                }
            }
            if whole < n {
                match nexts.get(whole).map(|m| &m.res) {
                    Some(r) if is_io(r) => {}
                    other => ctx.fail("C13", "cut-record-is-io-error", "iter", format!("{}: the cut record {} was reported as {:?}", what, whole, other.map(|r| r.as_ref().map(item_short)))),
                }
            } else if !matches!(nexts.get(whole).map(|m| &m.res), Some(None)) {
                ctx.fail("C13", "complete-file-ends", "iter", format!("{}: iteration over the complete file did not end after {} items", what, n));
            }
            {
                let w2 = World::with_data(Plan::default(), f.shp[..len].to_vec(), f.shx.clone(), vec![]);
                let ty = f.expected.first().map(|g| g.ty).unwrap_or(1);
                pair_route(ctx, ty, &w2, scn.with_shx, scn.rstack, n, if whole < n { Some(whole) } else { None }, &what);
            }
            if scn.with_shx {
                for i in 0..n {
                    let Some(m) = marks.iter().find(|m| m.call == format!("read_nth({})", i)) else { continue };
                    if i < whole {
                        if !matches!(m.res, Some(Ok(_))) {
                            ctx.fail("C13", "whole-records-returned", "read_nth", format!("{}: read_nth({}) = {:?}", what, i, m.res.as_ref().map(item_short)));
                        }
                    } else if f.bounds[i].1 > len && !is_io(&m.res) {
                        ctx.fail("C13", "cut-record-is-io-error", "read_nth", format!("{}: read_nth({}) of a cut record = {:?}", what, i, m.res.as_ref().map(item_short)));
                    }
                }
            }
        }
        RfKind::TruncShx(len) => {
            let len = (*len).min(f.shx.len());
            let world = World::with_data(Plan::default(), f.shp.clone(), f.shx[..len].to_vec(), vec![]);
            let marks = traverse(&world, true, scn.rstack, n);
            ctx.stats.absorb_world(&world.borrow());
            let what = format!("shx truncated to {} of {} bytes", len, f.shx.len());
            genuine_only(ctx, &marks, f, &what);
            ctx.stats.reach(if len < 100 { "shx-cut:index-header" } else if len < f.shx.len() { "shx-cut:index-entry" } else { "shx-cut:complete" });
            if len < f.shx.len() && marks[0].panic.is_none() && !is_io(&marks[0].res) {
                ctx.fail("C13", "cut-index-is-io-error", "open", format!("{}: open returned {:?}", what, marks[0].res.as_ref().map(item_short)));
            }
        }
        RfKind::Plan(plan) => {
            // the undisturbed traversal is the reference
            let w0 = World::with_data(Plan::default(), f.shp.clone(), f.shx.clone(), vec![]);
            let base = traverse(&w0, scn.with_shx, scn.rstack, n);
            // on the complete file, read from a source that never fails, no iteration item and no
            // random access to an existing entry is an error ("all records wholly contained in the
            // retained bytes are returned"), whatever calls preceded it
            for m in &base {
                let iter_call = m.call.starts_with("next#") || m.call.starts_with("again#") || m.call == "last";
                let nth_existing = scn.with_shx && m.call.strip_prefix("read_nth(").and_then(|s| s.trim_end_matches(')').parse::<usize>().ok()).map_or(false, |i| i < n);
                let bad = (iter_call && matches!(m.res, Some(Err(_)))) || (nth_existing && !matches!(m.res, Some(Ok(_))));
                if bad {
                    ctx.fail("C13", "whole-records-returned", format!("undisturbed:{}", m.call.split(['#', '(']).next().unwrap_or("")), format!("complete file, undisturbed source, {}: {} returned {:?}", if scn.with_shx { "with index" } else { "without index" }, m.call, m.res.as_ref().map(item_short)));
                    break;
                }
            }
            let world = World::with_data(plan.clone(), f.shp.clone(), f.shx.clone(), vec![]);
            let marks = traverse(&world, scn.with_shx, scn.rstack, n);
            let wb = world.borrow();
            ctx.stats.absorb_world(&wb);
            let what = format!("source plan {}", serde_json::to_string(plan).unwrap_or_default());
            if std::env::var_os("SHPSIM_DEBUG_MARKS").is_some() {
                for m in &marks {
                    eprintln!("{} ev {}..{} -> {:?}", m.call, m.first_ev, m.end_ev, m.res.as_ref().map(item_short));
                    for e in &wb.log[m.first_ev.min(wb.log.len())..m.end_ev.min(wb.log.len())] {
                        eprintln!("    {:?} dev {} pos {} asked {} moved {} err {:?}", e.kind, e.dev, e.pos, e.asked, e.moved, e.err);
                    }
                }
            }
            genuine_only(ctx, &marks, f, &what);
            if marks.iter().any(|m| m.panic.is_some()) {
                return;
            }
            {
                let w2 = World::with_data(plan.clone(), f.shp.clone(), f.shx.clone(), vec![]);
                let ty = f.expected.first().map(|g| g.ty).unwrap_or(1);
                pair_route(ctx, ty, &w2, scn.with_shx, scn.rstack, n, None, &what);
            }
            // hard failures must surface from the call in progress, with that error
            let mut hard = false;
            for (ei, e) in wb.log.iter().enumerate() {
                let Some(k) = e.err else { continue };
                let masked = e.kind == OpKind::Read && k == std::io::ErrorKind::Interrupted;
                if masked {
                    continue;
                }
                if e.kind == OpKind::Seek && e.fault.is_none() {
                    continue; // a genuine invalid seek of the reader itself, not an injected fault
                }
                hard = true;
                let Some(m) = marks.iter().find(|m| ei >= m.first_ev && ei < m.end_ev) else {
                    ctx.fail("HARNESS", "event-outside-call", "rmarks", format!("event {} outside every reader call", ei));
                    continue;
                };
                let want = RErr::Io(format!("{:?}", k));
                let site = format!("{}:{}:{:?}", m.call.split(['#', '(']).next().unwrap_or(""), DEV_NAMES[e.dev as usize], e.kind);
                ctx.stats.reach(&format!("fault-in:{}", site));
                if m.call == "last" {
                    // Iterator::last() hands back the final item only: an error item in the middle
                    // (which is how the failure surfaced) is dropped by the adaptor, not by the library
                    continue;
                }
                if m.res != Some(Err(want.clone())) {
                    ctx.fail("C13", "source-error-surfaces", site, format!("{}: {:?} on {} failed with {:?} during {}, which returned {:?}", what, e.kind, DEV_NAMES[e.dev as usize], k, m.call, m.res.as_ref().map(item_short)));
                }
            }
            if !hard {
                // short reads and EINTR change nothing at all
                let a: Vec<(String, Option<Item>)> = base.iter().map(|m| (m.call.clone(), m.res.clone())).collect();
                let b: Vec<(String, Option<Item>)> = marks.iter().map(|m| (m.call.clone(), m.res.clone())).collect();
                if a != b {
                    let i = a.iter().zip(b.iter()).position(|(x, y)| x != y).unwrap_or(a.len().min(b.len()));
                    ctx.fail("C13", "masked-schedule-same-results", if plan.faults.is_empty() { "schedule" } else { "eintr-fault" }, format!("{}: results differ from the undisturbed traversal at call {}: {:?} vs {:?}", what, i, a.get(i).map(|x| (&x.0, x.1.as_ref().map(item_short))), b.get(i).map(|x| (&x.0, x.1.as_ref().map(item_short)))));
                }
                ctx.stats.reach("masked-traversal-compared");
            }
        }
    }
    let sig = format!("{}|{:?}|{}", f.expected.first().map(|g| g.ty).unwrap_or(0), match &scn.kind { RfKind::TruncShp(l) => format!("ts{}", l), RfKind::TruncShx(l) => format!("tx{}", l), RfKind::Plan(p) => serde_json::to_string(p).unwrap_or_default() }, scn.with_shx);
    ctx.stats.distinct.insert(crate::prng::fnv_str(&sig) ^ crate::prng::fnv(&f.shp));
}

pub fn execute(scn: &RfScn, ctx: &mut Ctx) {
    let Some(f) = produce(&scn.w) else {
        ctx.fail("HARNESS", "invalid-scenario", "producer", "the producer workload does not yield a valid file".to_string());
        return;
    };
    if scn.layout != 0 {
        if !scn.with_shx || matches!(scn.kind, RfKind::TruncShx(_)) || f.bounds.is_empty() {
            ctx.fail("HARNESS", "invalid-scenario", "layout", "re-laid-out files are only traversed with their index, under a fault plan or cut".to_string());
            return;
        }
        run_case(scn, &relaid(&f, scn.layout), ctx);
        return;
    }
    run_case(scn, &f, ctx);
}

/// One unit = one seeded valid file x every truncation length of .shp (with and without index)
/// and of .shx x every failing operation k of a full traversal x schedules.
pub fn unit(seed: u64, ctx: &mut Ctx, ctl: &mut UnitCtl) {
    let mut r = Rng::new(seed);
    let w = generate_file(&mut r);
    unit_with(w, &mut r, 1, 1, ctx, ctl);
}

/// Large shapes (parts of more than 1024 points, more than 1024 parts): the same sweeps with a
/// stride on truncation lengths and operation indices away from the record boundaries.
pub fn large_unit(unit: u64, coarse: bool, ctx: &mut Ctx, ctl: &mut UnitCtl) {
    let mut r = Rng::new(0x13A + unit);
    let cfg: [(i32, usize, usize); 8] = [(3, 1, 1500), (5, 1, 1025), (8, 1, 2000), (13, 1, 1100), (28, 1, 1300), (31, 1, 1030), (3, 1030, 2), (25, 2, 1200)];
    let (ty, nparts, npts) = cfg[(unit as usize) % cfg.len()];
    let mut shapes = vec![grid_spec(ty, 1, 3, 5), grid_spec(ty, nparts, npts, 9), grid_spec(ty, 1, 2, 70)];
    for (i, s) in shapes.iter_mut().enumerate() {
        tag_spec(s, i);
    }
    let w = WProg { calls: (0..3).map(WCall::W).collect(), shapes, others: vec![], ending: Ending::Drop, with_shx: true, stack: StackCfg::Direct };
    ctx.stats.reach("large-file");
    let (ts, os) = if coarse { (101, 409) } else { (11, 37) };
    unit_with(w, &mut r, ts, os, ctx, ctl);
}

fn unit_with(w: WProg, r: &mut Rng, trunc_stride: usize, op_stride: u32, ctx: &mut Ctx, ctl: &mut UnitCtl) {
    let Some(f) = produce(&w) else {
        ctx.fail("HARNESS", "invalid-scenario", "producer", "generated producer workload does not yield a valid file".to_string());
        ctl.after_case(ctx, || Scenario::RFault(RfScn { w: w.clone(), kind: RfKind::TruncShp(0), with_shx: false, rstack: StackCfg::Direct, layout: 0 }));
        return;
    };
    let small = *r.pick(&[1u32, 3, 7, 16, 64]);
    let rstacks = [StackCfg::Direct, StackCfg::Buf(small), StackCfg::Buf(8192)];
    let f1 = relaid(&f, 1);
    let f2 = relaid(&f, 2);
    let f4 = relaid(&f, 4);
    let layout_cell = std::cell::Cell::new(0u8);
    let mut case = |kind: RfKind, with_shx: bool, rstack: StackCfg, ctx: &mut Ctx, ctl: &mut UnitCtl| {
        let layout = layout_cell.get();
        let scn = RfScn { w: w.clone(), kind, with_shx, rstack, layout };
        if !ctl.before_case(|| Scenario::RFault(scn.clone())) {
            return;
        }
        ctx.stats.evaluations += 1;
        run_case(&scn, match layout { 0 => &f, 1 => &f1, 4 => &f4, _ => &f2 }, ctx);
        if ctx.stats.samples.len() < 2 && matches!(scn.kind, RfKind::TruncShp(130)) {
            ctx.stats.samples.push(serde_json::json!({"type": type_name(scn.w.shapes[0].ty), "shapes": scn.w.shapes.len(), "kind": scn.kind, "with_shx": scn.with_shx, "rstack": format!("{:?}", scn.rstack)}));
        }
        ctl.after_case(ctx, || Scenario::RFault(scn.clone()));
    };
    // every length near the file start and near every record boundary; a stride elsewhere
    let near = |len: usize| len <= 140 || len + 40 >= f.shp.len() || f.bounds.iter().any(|(s, e)| len + 40 >= *s && len <= *s + 60 || len + 40 >= *e && len <= *e + 40);
    for len in 0..=f.shp.len() {
        if trunc_stride > 1 && !near(len) && len % trunc_stride != 0 {
            continue;
        }
        let rs = rstacks[len % 3];
        case(RfKind::TruncShp(len), false, rs, ctx, ctl);
        case(RfKind::TruncShp(len), true, rstacks[(len + 1) % 3], ctx, ctl);
    }
    for len in 0..=f.shx.len() {
        case(RfKind::TruncShx(len), true, rstacks[len % 3], ctx, ctl);
    }
    // failing operation k of a full traversal, per stack, per device
    for rs in rstacks {
        for with_shx in [false, true] {
            let w0 = World::with_data(Plan::default(), f.shp.clone(), f.shx.clone(), vec![]);
            let _ = traverse(&w0, with_shx, rs, f.expected.len());
            let ops = [w0.borrow().devices[SHP].ops, w0.borrow().devices[SHX].ops];
            // which operations of each device are seeks (every operation is logged, in order)
            let seek_ops: [Vec<u32>; 2] = {
                let wb = w0.borrow();
                let of = |d: usize| wb.events_of(d).iter().enumerate().filter(|(_, ei)| wb.log[**ei].kind == OpKind::Seek).map(|(k, _)| k as u32).collect::<Vec<u32>>();
                [of(SHP), of(SHX)]
            };
            for dev in 0..2 {
                for k in 0..ops[dev] {
                    if op_stride > 1 && k > 60 && k % op_stride != 0 && !seek_ops[dev].contains(&k) {
                        continue;
                    }
                    let mut kinds = vec![FaultKind::Err(((k + dev as u32) % 6) as u8), FaultKind::Eintr, FaultKind::ErrMoved(((k + dev as u32) % 6) as u8)];
                    // the other error kinds a source can report (world::err_kind): all of them on
                    // every seek, one chosen by position on every other operation
                    if seek_ops[dev].contains(&k) {
                        kinds.extend((6..crate::world::N_ERR_KINDS).map(|c| if (c as u32 + k) % 3 == 0 { FaultKind::ErrMoved(c) } else { FaultKind::Err(c) }));
                    } else {
                        kinds.push(FaultKind::Err(6 + ((k * 5 + dev as u32 * 3) % (crate::world::N_ERR_KINDS as u32 - 6)) as u8));
                    }
                    for kind in kinds {
                        // a seek that moves and then fails: only where operation k is a seek
                        if matches!(kind, FaultKind::ErrMoved(_)) && !seek_ops[dev].contains(&k) {
                            continue;
                        }
                        let mut plan = Plan::default();
                        plan.faults.push(Fault { dev: dev as u8, at: k, kind, persistent: false });
                        case(RfKind::Plan(plan), with_shx, rs, ctx, ctl);
                    }
                }
            }
            // short-read schedules and EINTR schedules
            for c in CHUNK_SIZES.iter().filter(|c| **c != 0) {
                for e in [None, Some((2u32, 0u32)), Some((5, 3))] {
                    let mut plan = Plan::default();
                    for d in 0..2 {
                        plan.dev[d].chunks = vec![*c];
                        plan.dev[d].eintr = e;
                    }
                    case(RfKind::Plan(plan), with_shx, rs, ctx, ctl);
                }
            }
        }
    }
    // re-laid-out files: the indexed traversal seeks, so seek faults land inside iteration too
    if f.expected.len() >= 2 {
        for layout in [1u8, 2, 4] {
            layout_cell.set(layout);
            let fl = match layout { 1 => &f1, 4 => &f4, _ => &f2 };
            // every cut of the re-laid-out .shp (strided for large files), read with the complete index
            for len in (100..=fl.shp.len()).step_by(trunc_stride.max(1)) {
                case(RfKind::TruncShp(len), true, rstacks[len % 3], ctx, ctl);
            }
            for rs in rstacks {
                let w0 = World::with_data(Plan::default(), fl.shp.clone(), fl.shx.clone(), vec![]);
                let _ = traverse(&w0, true, rs, fl.expected.len());
                let ops = w0.borrow().devices[SHP].ops;
                let seek_ops_l: Vec<u32> = {
                    let wb = w0.borrow();
                    wb.events_of(SHP).iter().enumerate().filter(|(_, ei)| wb.log[**ei].kind == OpKind::Seek).map(|(k, _)| k as u32).collect()
                };
                for k in 0..ops {
                    if op_stride > 1 && k > 60 && k % op_stride != 0 && !seek_ops_l.contains(&k) {
                        continue;
                    }
                    for kind in [FaultKind::Err((k % 6) as u8), FaultKind::Eintr, FaultKind::ErrMoved((k % 6) as u8)] {
                        if matches!(kind, FaultKind::ErrMoved(_)) && !seek_ops_l.contains(&k) {
                            continue;
                        }
                        let mut plan = Plan::default();
                        plan.faults.push(Fault { dev: SHP as u8, at: k, kind, persistent: false });
                        case(RfKind::Plan(plan), true, rs, ctx, ctl);
                    }
                }
                for c in [1u32, 3, 8] {
                    let mut plan = Plan::default();
                    plan.dev[SHP].chunks = vec![c];
                    plan.dev[SHP].eintr = Some((3, 1));
                    case(RfKind::Plan(plan), true, rs, ctx, ctl);
                }
                // a short transfer followed by a failure: one-shot fault at k under 1-, 3- and 5-byte reads
                if rs == StackCfg::Direct {
                    for c in [1u32, 3, 5] {
                        let w1 = World::with_data(Plan { faults: vec![], dev: [DevCfg { chunks: vec![c], eintr: None, capacity: None, start: 0, prefill: 0 }, DevCfg::default(), DevCfg::default()] }, fl.shp.clone(), fl.shx.clone(), vec![]);
                        let _ = traverse(&w1, true, rs, fl.expected.len());
                        let ops1 = w1.borrow().devices[SHP].ops;
                        let stride = (ops1 / if op_stride > 100 { 40 } else { 400 }).max(1);
                        for k in (0..ops1).step_by(stride as usize) {
                            let mut plan = Plan::default();
                            plan.dev[SHP].chunks = vec![c];
                            plan.faults.push(Fault { dev: SHP as u8, at: k, kind: FaultKind::Err((k % 6) as u8), persistent: false });
                            case(RfKind::Plan(plan), true, rs, ctx, ctl);
                        }
                    }
                }
            }
        }
        layout_cell.set(0);
    }
    for _ in 0..8 {
        let mut plan = Plan::default();
        plan.dev[SHP] = gen_devcfg(r, true);
        plan.dev[SHX] = gen_devcfg(r, true);
        case(RfKind::Plan(plan), r.chance(1, 2), rstacks[r.usize(0, 2)], ctx, ctl);
    }
}
