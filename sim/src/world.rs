//! The simulated storage: in-memory devices behind `Read + Write + Seek` handles that consult a
//! fault plan before every operation and log every operation with a global sequence number.
//! Nothing here draws random numbers or reads a clock: behaviour is a pure function of the plan.

use serde::{Deserialize, Serialize};
use std::cell::RefCell;
use std::io::{self, BufReader, BufWriter, ErrorKind, Read, Seek, SeekFrom, Write};
use std::rc::Rc;

pub const SHP: usize = 0;
pub const SHX: usize = 1;
pub const DBF: usize = 2;
pub const DEV_NAMES: [&str; 3] = ["shp", "shx", "dbf"];

#[derive(Clone, Copy, Debug, PartialEq, Eq, Serialize, Deserialize)]
pub enum FaultKind {
    /// the operation returns Err(kind): 0 Other, 1 PermissionDenied, 2 StorageFull, 3 BrokenPipe,
    /// 4 UnexpectedEof, 5 InvalidData, 6 Unsupported, 7 OutOfMemory, .. (table in `err_kind`)
    Err(u8),
    /// a write returns Ok(0)
    Zero,
    /// the operation returns ErrorKind::Interrupted
    Eintr,
    /// a seek that moves the position and then reports Err(kind) (a layered stream that seeks its
    /// inner stream and then fails: `Seek` does not promise where a failed seek leaves the stream);
    /// on any other operation the same as Err(kind)
    ErrMoved(u8),
}

/// Number of distinct error kinds `err_kind` knows (codes 0..N_ERR_KINDS-1).
pub const N_ERR_KINDS: u8 = 40;

pub fn err_kind(code: u8) -> ErrorKind {
    match code {
        1 => ErrorKind::PermissionDenied,
        2 => ErrorKind::StorageFull,
        3 => ErrorKind::BrokenPipe,
        4 => ErrorKind::UnexpectedEof,
        5 => ErrorKind::InvalidData,
        // kinds a layered or unusual stream reports; none of them has a meaning of its own for
        // the library or for std's adaptors (only Interrupted has, and that is FaultKind::Eintr)
        6 => ErrorKind::Unsupported,
        7 => ErrorKind::OutOfMemory,
        8 => ErrorKind::InvalidInput,
        9 => ErrorKind::TimedOut,
        10 => ErrorKind::WouldBlock,
        11 => ErrorKind::NotFound,
        12 => ErrorKind::AlreadyExists,
        13 => ErrorKind::WriteZero,
        14 => ErrorKind::NotSeekable,
        15 => ErrorKind::ConnectionReset,
        16 => ErrorKind::ConnectionAborted,
        17 => ErrorKind::NotConnected,
        18 => ErrorKind::ConnectionRefused,
        19 => ErrorKind::AddrInUse,
        20 => ErrorKind::AddrNotAvailable,
        21 => ErrorKind::ReadOnlyFilesystem,
        22 => ErrorKind::FileTooLarge,
        23 => ErrorKind::QuotaExceeded,
        24 => ErrorKind::ResourceBusy,
        25 => ErrorKind::Deadlock,
        26 => ErrorKind::IsADirectory,
        27 => ErrorKind::NotADirectory,
        28 => ErrorKind::DirectoryNotEmpty,
        29 => ErrorKind::StaleNetworkFileHandle,
        30 => ErrorKind::HostUnreachable,
        31 => ErrorKind::NetworkUnreachable,
        32 => ErrorKind::NetworkDown,
        33 => ErrorKind::CrossesDevices,
        34 => ErrorKind::TooManyLinks,
        35 => ErrorKind::InvalidFilename,
        36 => ErrorKind::ArgumentListTooLong,
        37 => ErrorKind::ExecutableFileBusy,
        38 => ErrorKind::StorageFull,
        39 => ErrorKind::Other,
        _ => ErrorKind::Other,
    }
}

#[derive(Clone, Debug, Serialize, Deserialize)]
pub struct Fault {
    pub dev: u8,
    /// index of the operation (read, write, seek or flush; counted per device from 0)
    pub at: u32,
    pub kind: FaultKind,
    /// every operation from `at` on fails, not only the `at`-th
    pub persistent: bool,
}

/// Transfer schedule (S1) and capacity of one device.
#[derive(Clone, Debug, Default, Serialize, Deserialize)]
pub struct DevCfg {
    /// cyclic list of maximum bytes moved per read/write call; empty or 0 = everything offered
    #[serde(default)]
    pub chunks: Vec<u32>,
    /// reads/writes whose per-device operation index i satisfies i % period == phase return Interrupted
    #[serde(default)]
    pub eintr: Option<(u32, u32)>,
    /// disk-full: bytes beyond this device size are not accepted
    #[serde(default)]
    pub capacity: Option<u64>,
    /// position of the (empty) destination when the writer is given it: a caller may hand over a
    /// stream that is not at its start (a cursor that was used before); writers only
    #[serde(default)]
    pub start: u32,
    /// bytes of older content (0xEE) the destination already holds when the writer is given it (a
    /// reused in-memory buffer cannot be truncated by the writer: only differential oracles apply)
    #[serde(default)]
    pub prefill: u32,
}

#[derive(Clone, Debug, Default, Serialize, Deserialize)]
pub struct Plan {
    #[serde(default)]
    pub faults: Vec<Fault>,
    #[serde(default)]
    pub dev: [DevCfg; 3],
}

impl Plan {
    pub fn is_clean(&self) -> bool {
        self.faults.is_empty()
            && self
                .dev
                .iter()
                .all(|d| d.chunks.is_empty() && d.eintr.is_none() && d.capacity.is_none())
    }
}

#[derive(Clone, Copy, Debug, PartialEq, Eq)]
pub enum OpKind {
    Write,
    Read,
    Seek,
    Flush,
}

#[derive(Clone, Debug)]
pub struct Event {
    pub dev: u8,
    pub kind: OpKind,
    /// device position the operation acted at (for Seek: the position reached)
    pub pos: u64,
    /// bytes offered (write) or asked (read)
    pub asked: u32,
    /// bytes accepted (write) or returned (read)
    pub moved: u32,
    /// offset of the accepted bytes in `World::blob` (writes only)
    pub blob_off: usize,
    /// None = Ok, Some(kind) = the error returned
    pub err: Option<ErrorKind>,
    /// which fault (if any) produced the result: "err", "zero", "eintr", "sched-eintr", "full", "short"
    pub fault: Option<&'static str>,
}

pub struct Device {
    pub data: Vec<u8>,
    pub ops: u32,
    chunk_i: usize,
}

pub struct World {
    pub devices: [Device; 3],
    pub log: Vec<Event>,
    pub blob: Vec<u8>,
    pub plan: Plan,
    /// per fault kind: how often it actually fired
    pub fired: Vec<(&'static str, u64)>,
    /// log reads too (off for the bulk crash-image reads where only the result matters)
    pub log_reads: bool,
}

pub type WorldRef = Rc<RefCell<World>>;

impl World {
    pub fn new(plan: Plan) -> WorldRef {
        let pre = |i: usize| vec![0xEEu8; plan.dev[i].prefill as usize];
        Rc::new(RefCell::new(World {
            devices: [
                Device { data: pre(0), ops: 0, chunk_i: 0 },
                Device { data: pre(1), ops: 0, chunk_i: 0 },
                Device { data: pre(2), ops: 0, chunk_i: 0 },
            ],
            log: Vec::new(),
            blob: Vec::new(),
            plan,
            fired: Vec::new(),
            log_reads: true,
        }))
    }

    pub fn with_data(plan: Plan, shp: Vec<u8>, shx: Vec<u8>, dbf: Vec<u8>) -> WorldRef {
        let w = World::new(plan);
        {
            let mut m = w.borrow_mut();
            m.devices[SHP].data = shp;
            m.devices[SHX].data = shx;
            m.devices[DBF].data = dbf;
        }
        w
    }

    fn fire(&mut self, what: &'static str) {
        for f in self.fired.iter_mut() {
            if f.0 == what {
                f.1 += 1;
                return;
            }
        }
        self.fired.push((what, 1));
    }

    /// The fault, if any, that the plan schedules for operation `op` of device `dev`.
    fn planned(&self, dev: usize, op: u32) -> Option<FaultKind> {
        for f in &self.plan.faults {
            if f.dev as usize == dev && (f.at == op || (f.persistent && op >= f.at)) {
                return Some(f.kind);
            }
        }
        None
    }

    fn next_chunk(&mut self, dev: usize) -> usize {
        let cfg = &self.plan.dev[dev].chunks;
        if cfg.is_empty() {
            return usize::MAX;
        }
        let d = &mut self.devices[dev];
        let c = cfg[d.chunk_i % cfg.len()];
        d.chunk_i += 1;
        if c == 0 {
            usize::MAX
        } else {
            c as usize
        }
    }

    pub fn data(&self, dev: usize) -> &[u8] {
        &self.devices[dev].data
    }

    pub fn events_of(&self, dev: usize) -> Vec<usize> {
        self.log
            .iter()
            .enumerate()
            .filter(|(_, e)| e.dev as usize == dev)
            .map(|(i, _)| i)
            .collect()
    }
}

pub struct Handle {
    pub world: WorldRef,
    pub dev: usize,
    pub pos: u64,
}

impl Handle {
    pub fn new(world: &WorldRef, dev: usize) -> Handle {
        Handle { world: world.clone(), dev, pos: 0 }
    }
}

fn ioerr(kind: ErrorKind) -> io::Error {
    io::Error::new(kind, "simulated fault")
}

impl Write for Handle {
    fn write(&mut self, buf: &[u8]) -> io::Result<usize> {
        let mut w = self.world.borrow_mut();
        let dev = self.dev;
        let op = w.devices[dev].ops;
        w.devices[dev].ops += 1;
        let mut ev = Event {
            dev: dev as u8,
            kind: OpKind::Write,
            pos: self.pos,
            asked: buf.len() as u32,
            moved: 0,
            blob_off: w.blob.len(),
            err: None,
            fault: None,
        };
        if let Some(f) = w.planned(dev, op) {
            match f {
                FaultKind::Err(k) | FaultKind::ErrMoved(k) => {
                    ev.err = Some(err_kind(k));
                    ev.fault = Some("err");
                    w.fire("w-err");
                }
                FaultKind::Zero => {
                    ev.fault = Some("zero");
                    w.fire("w-zero");
                    w.log.push(ev);
                    return Ok(0);
                }
                FaultKind::Eintr => {
                    ev.err = Some(ErrorKind::Interrupted);
                    ev.fault = Some("eintr");
                    w.fire("w-eintr");
                }
            }
            let k = ev.err.unwrap();
            w.log.push(ev);
            return Err(ioerr(k));
        }
        if let Some((period, phase)) = w.plan.dev[dev].eintr {
            if period >= 2 && op % period == phase % period {
                ev.err = Some(ErrorKind::Interrupted);
                ev.fault = Some("sched-eintr");
                w.fire("w-sched-eintr");
                w.log.push(ev);
                return Err(ioerr(ErrorKind::Interrupted));
            }
        }
        let mut n = buf.len();
        let c = w.next_chunk(dev);
        if c < n {
            n = c;
            ev.fault = Some("short");
            w.fire("w-short");
        }
        if let Some(cap) = w.plan.dev[dev].capacity {
            let room = cap.saturating_sub(self.pos) as usize;
            if room < n {
                if room == 0 && !buf.is_empty() {
                    ev.err = Some(ErrorKind::StorageFull);
                    ev.fault = Some("full");
                    w.fire("disk-full");
                    w.log.push(ev);
                    return Err(ioerr(ErrorKind::StorageFull));
                }
                n = room;
                ev.fault = Some("full");
                w.fire("disk-full-short");
            }
        }
        let pos = self.pos as usize;
        {
            let data = &mut w.devices[dev].data;
            if data.len() < pos + n {
                data.resize(pos + n, 0);
            }
            data[pos..pos + n].copy_from_slice(&buf[..n]);
        }
        w.blob.extend_from_slice(&buf[..n]);
        ev.moved = n as u32;
        w.log.push(ev);
        self.pos += n as u64;
        Ok(n)
    }

    fn flush(&mut self) -> io::Result<()> {
        let mut w = self.world.borrow_mut();
        let dev = self.dev;
        let op = w.devices[dev].ops;
        w.devices[dev].ops += 1;
        let mut ev = Event {
            dev: dev as u8,
            kind: OpKind::Flush,
            pos: self.pos,
            asked: 0,
            moved: 0,
            blob_off: 0,
            err: None,
            fault: None,
        };
        if let Some(f) = w.planned(dev, op) {
            let k = match f {
                FaultKind::Err(k) | FaultKind::ErrMoved(k) => err_kind(k),
                FaultKind::Zero => ErrorKind::WriteZero,
                FaultKind::Eintr => ErrorKind::Interrupted,
            };
            ev.err = Some(k);
            ev.fault = Some("err");
            w.fire("flush-err");
            w.log.push(ev);
            return Err(ioerr(k));
        }
        w.log.push(ev);
        Ok(())
    }
}

impl Read for Handle {
    fn read(&mut self, buf: &mut [u8]) -> io::Result<usize> {
        let mut w = self.world.borrow_mut();
        let dev = self.dev;
        let op = w.devices[dev].ops;
        w.devices[dev].ops += 1;
        let log_reads = w.log_reads;
        let mut ev = Event {
            dev: dev as u8,
            kind: OpKind::Read,
            pos: self.pos,
            asked: buf.len() as u32,
            moved: 0,
            blob_off: 0,
            err: None,
            fault: None,
        };
        if let Some(f) = w.planned(dev, op) {
            let k = match f {
                FaultKind::Err(k) | FaultKind::ErrMoved(k) => err_kind(k),
                FaultKind::Zero => ErrorKind::Other,
                FaultKind::Eintr => ErrorKind::Interrupted,
            };
            ev.err = Some(k);
            ev.fault = Some(if k == ErrorKind::Interrupted { "eintr" } else { "err" });
            w.fire(if k == ErrorKind::Interrupted { "r-eintr" } else { "r-err" });
            w.log.push(ev);
            return Err(ioerr(k));
        }
        if let Some((period, phase)) = w.plan.dev[dev].eintr {
            if period >= 2 && op % period == phase % period {
                ev.err = Some(ErrorKind::Interrupted);
                ev.fault = Some("sched-eintr");
                w.fire("r-sched-eintr");
                w.log.push(ev);
                return Err(ioerr(ErrorKind::Interrupted));
            }
        }
        let len = w.devices[dev].data.len() as u64;
        let avail = len.saturating_sub(self.pos) as usize;
        let mut n = buf.len().min(avail);
        let c = w.next_chunk(dev);
        if c < n {
            n = c;
            ev.fault = Some("short");
            w.fire("r-short");
        }
        let pos = self.pos as usize;
        if n > 0 {
            buf[..n].copy_from_slice(&w.devices[dev].data[pos..pos + n]);
        }
        ev.moved = n as u32;
        if log_reads {
            w.log.push(ev);
        }
        self.pos += n as u64;
        Ok(n)
    }
}

impl Seek for Handle {
    fn seek(&mut self, to: SeekFrom) -> io::Result<u64> {
        let mut w = self.world.borrow_mut();
        let dev = self.dev;
        let op = w.devices[dev].ops;
        w.devices[dev].ops += 1;
        let mut ev = Event {
            dev: dev as u8,
            kind: OpKind::Seek,
            pos: self.pos,
            asked: 0,
            moved: 0,
            blob_off: 0,
            err: None,
            fault: None,
        };
        if let Some(f) = w.planned(dev, op) {
            let k = match f {
                FaultKind::Err(k) | FaultKind::ErrMoved(k) => err_kind(k),
                FaultKind::Zero => ErrorKind::Other,
                FaultKind::Eintr => ErrorKind::Interrupted,
            };
            if let FaultKind::ErrMoved(_) = f {
                // the position changes, then the failure is reported
                let len = w.devices[dev].data.len() as i128;
                let target: i128 = match to {
                    SeekFrom::Start(n) => n as i128,
                    SeekFrom::End(d) => len + d as i128,
                    SeekFrom::Current(d) => self.pos as i128 + d as i128,
                };
                if target >= 0 && target <= u64::MAX as i128 {
                    self.pos = target as u64;
                    ev.pos = self.pos;
                }
                w.fire("seek-err-moved");
            } else {
                w.fire("seek-err");
            }
            ev.err = Some(k);
            ev.fault = Some("err");
            w.log.push(ev);
            return Err(ioerr(k));
        }
        let len = w.devices[dev].data.len() as i128;
        let target: i128 = match to {
            SeekFrom::Start(n) => n as i128,
            SeekFrom::End(d) => len + d as i128,
            SeekFrom::Current(d) => self.pos as i128 + d as i128,
        };
        if target < 0 || target > u64::MAX as i128 {
            ev.err = Some(ErrorKind::InvalidInput);
            w.log.push(ev);
            return Err(io::Error::new(ErrorKind::InvalidInput, "seek before start"));
        }
        self.pos = target as u64;
        ev.pos = self.pos;
        w.log.push(ev);
        Ok(self.pos)
    }
}

/// Buffering layer between the library and the device (S4).
#[derive(Clone, Copy, Debug, PartialEq, Eq, Serialize, Deserialize)]
pub enum StackCfg {
    Direct,
    /// BufWriter / BufReader of this capacity
    Buf(u32),
    /// writers only: a write-back layer that keeps every write (with its position) in memory and hands
    /// them to the device only when `flush` is called - not on seeks, not when dropped (a
    /// transactional or caching destination); as a reader stack: the same as Direct
    WriteBack,
}

pub enum Stack {
    Direct(Handle),
    BufW(BufWriter<Handle>),
    BufR(BufReader<Handle>),
    WB(WriteBack),
}

/// See `StackCfg::WriteBack`.
pub struct WriteBack {
    inner: Handle,
    pending: Vec<(u64, Vec<u8>)>,
    pos: u64,
    /// logical length: what the device holds plus what is pending
    len: u64,
}

impl WriteBack {
    fn new(inner: Handle) -> WriteBack {
        let len = inner.world.borrow().devices[inner.dev].data.len() as u64;
        let pos = inner.pos;
        WriteBack { inner, pending: Vec::new(), pos, len }
    }
    fn write(&mut self, buf: &[u8]) -> io::Result<usize> {
        self.pending.push((self.pos, buf.to_vec()));
        self.pos += buf.len() as u64;
        self.len = self.len.max(self.pos);
        Ok(buf.len())
    }
    fn flush(&mut self) -> io::Result<()> {
        while !self.pending.is_empty() {
            let (pos, bytes) = self.pending[0].clone();
            self.inner.seek(SeekFrom::Start(pos))?;
            self.inner.write_all(&bytes)?;
            self.pending.remove(0);
        }
        self.inner.flush()
    }
    fn seek(&mut self, to: SeekFrom) -> io::Result<u64> {
        let t: i128 = match to {
            SeekFrom::Start(n) => n as i128,
            SeekFrom::End(d) => self.len as i128 + d as i128,
            SeekFrom::Current(d) => self.pos as i128 + d as i128,
        };
        if t < 0 || t > u64::MAX as i128 {
            return Err(io::Error::new(ErrorKind::InvalidInput, "seek before start"));
        }
        self.pos = t as u64;
        Ok(self.pos)
    }
}

impl Stack {
    pub fn writer(world: &WorldRef, dev: usize, cfg: StackCfg) -> Stack {
        let mut h = Handle::new(world, dev);
        h.pos = world.borrow().plan.dev[dev].start as u64;
        match cfg {
            StackCfg::Direct => Stack::Direct(h),
            StackCfg::Buf(c) => Stack::BufW(BufWriter::with_capacity(c as usize, h)),
            StackCfg::WriteBack => Stack::WB(WriteBack::new(h)),
        }
    }
    pub fn reader(world: &WorldRef, dev: usize, cfg: StackCfg) -> Stack {
        match cfg {
            StackCfg::Direct | StackCfg::WriteBack => Stack::Direct(Handle::new(world, dev)),
            StackCfg::Buf(c) => Stack::BufR(BufReader::with_capacity(c as usize, Handle::new(world, dev))),
        }
    }
}

thread_local! {
    /// bytes the code under test handed to `Stack::write` for the .shp device (above any buffer): C18
    pub static OFFERED_SHP: std::cell::Cell<u64> = const { std::cell::Cell::new(0) };
}

impl Write for Stack {
    fn write(&mut self, buf: &[u8]) -> io::Result<usize> {
        match self {
            Stack::Direct(h) => {
                let r = h.write(buf);
                if h.dev == SHP {
                    if let Ok(n) = r {
                        OFFERED_SHP.with(|c| c.set(c.get() + n as u64));
                    }
                }
                r
            }
            Stack::BufW(b) => {
                let r = b.write(buf);
                if b.get_ref().dev == SHP {
                    if let Ok(n) = r {
                        OFFERED_SHP.with(|c| c.set(c.get() + n as u64));
                    }
                }
                r
            }
            Stack::BufR(_) => Err(io::Error::new(ErrorKind::Unsupported, "read-only stack")),
            Stack::WB(w) => {
                let r = w.write(buf);
                if w.inner.dev == SHP {
                    if let Ok(n) = r {
                        OFFERED_SHP.with(|c| c.set(c.get() + n as u64));
                    }
                }
                r
            }
        }
    }
    fn flush(&mut self) -> io::Result<()> {
        match self {
            Stack::Direct(h) => h.flush(),
            Stack::BufW(b) => b.flush(),
            Stack::BufR(_) => Ok(()),
            Stack::WB(w) => w.flush(),
        }
    }
}

impl Read for Stack {
    fn read(&mut self, buf: &mut [u8]) -> io::Result<usize> {
        match self {
            Stack::Direct(h) => h.read(buf),
            Stack::BufR(b) => b.read(buf),
            Stack::BufW(_) | Stack::WB(_) => Err(io::Error::new(ErrorKind::Unsupported, "write-only stack")),
        }
    }
}

impl Seek for Stack {
    fn seek(&mut self, to: SeekFrom) -> io::Result<u64> {
        match self {
            Stack::Direct(h) => h.seek(to),
            Stack::BufW(b) => b.seek(to),
            Stack::BufR(b) => b.seek(to),
            Stack::WB(w) => w.seek(to),
        }
    }
}

/// Rebuild the persisted image of one device from the log: the first `n_events` events of the
/// device applied to an empty buffer, the `n_events`-th (if a write) only up to `cut` bytes.
/// `dev_events` are the indices into `log` of this device's events.
pub fn crash_image(world: &World, dev_events: &[usize], n_full: usize, cut: usize) -> Vec<u8> {
    let mut img: Vec<u8> = Vec::new();
    let apply = |img: &mut Vec<u8>, e: &Event, upto: usize| {
        if e.kind == OpKind::Write && e.moved > 0 {
            let n = (e.moved as usize).min(upto);
            let pos = e.pos as usize;
            if img.len() < pos + n {
                img.resize(pos + n, 0);
            }
            img[pos..pos + n].copy_from_slice(&world.blob[e.blob_off..e.blob_off + n]);
        }
    };
    for &i in &dev_events[..n_full] {
        apply(&mut img, &world.log[i], usize::MAX);
    }
    if cut > 0 && n_full < dev_events.len() {
        apply(&mut img, &world.log[dev_events[n_full]], cut);
    }
    img
}
