//! shpsim: deterministic simulation with fault injection for shapefile-rs.
//!
//!   shpsim check <ID> [--tier quick|thorough] [--workers N]     (VERIF_SEED, VERIF_TIER from env)
//!   shpsim replay <file>
//!   shpsim selfcheck determinism [--runs N]
//!
//! Exit codes: 0 held, 1 violation (with VIOLATION lines), 2 harness error.

mod alloc;
mod checks;
mod core;
mod fam_corrupt;
mod fam_crash;
mod fam_foreign;
mod fam_histr;
mod fam_pair;
mod fam_histw;
mod fam_rfault;
mod fam_rt;
mod fam_wfault;
mod gen;
mod geom;
mod orch;
mod prng;
mod rd;
mod refcodec;
mod scn;
mod shrink;
mod world;
mod wrun;

use scn::Tier;
use std::path::PathBuf;

#[global_allocator]
static GLOBAL: alloc::Counting = alloc::Counting;

pub const DEFAULT_SEED: u64 = 20260927;

/// Per-process scratch directory for the by-path routes (created on first use).
pub fn scratch_dir() -> PathBuf {
    let d = std::env::temp_dir().join(format!("shpsim-{}", std::process::id()));
    let _ = std::fs::create_dir_all(&d);
    d
}

fn cleanup_scratch() {
    let d = std::env::temp_dir().join(format!("shpsim-{}", std::process::id()));
    let _ = std::fs::remove_dir_all(d);
}

fn env_seed() -> u64 {
    std::env::var("VERIF_SEED").ok().and_then(|s| s.trim().parse::<u64>().ok()).unwrap_or(DEFAULT_SEED)
}

fn parse_tier(s: &str) -> Tier {
    if s == "thorough" {
        Tier::Thorough
    } else {
        Tier::Quick
    }
}

fn main() {
    assert_eq!(shapefile::NO_DATA.to_bits(), geom::NO_DATA_BITS, "harness constant NO_DATA_BITS");
    let args: Vec<String> = std::env::args().collect();
    let code = match args.get(1).map(|s| s.as_str()) {
        Some("check") => {
            let prop = args.get(2).cloned().unwrap_or_default();
            let mut tier = std::env::var("VERIF_TIER").map(|t| parse_tier(&t)).unwrap_or(Tier::Quick);
            let mut workers = std::thread::available_parallelism().map(|n| n.get() as u64).unwrap_or(4);
            let mut i = 3;
            while i < args.len() {
                match args[i].as_str() {
                    "--tier" => {
                        tier = parse_tier(args.get(i + 1).map(|s| s.as_str()).unwrap_or("quick"));
                        i += 1;
                    }
                    "--workers" => {
                        workers = args.get(i + 1).and_then(|s| s.parse().ok()).unwrap_or(workers);
                        i += 1;
                    }
                    _ => {}
                }
                i += 1;
            }
            orch::cmd_check(&prop, tier, env_seed(), workers.max(1))
        }
        Some("worker") => {
            let resume = match (args.get(7), args.get(8)) {
                (Some(ph), Some(u)) => Some((ph.clone(), u.parse().unwrap())),
                _ => None,
            };
            let r = orch::cmd_worker(&args[2], parse_tier(&args[3]), args[4].parse().unwrap(), args[5].parse().unwrap(), args[6].parse().unwrap(), resume);
            cleanup_scratch();
            r
        }
        Some("pinpoint") => orch::cmd_pinpoint(&args[2], parse_tier(&args[3]), args[4].parse().unwrap(), &args[5], args[6].parse().unwrap()),
        Some("exec") => {
            let r = orch::cmd_exec(&PathBuf::from(&args[2]));
            cleanup_scratch();
            r
        }
        Some("stderr-gone-child") => {
            // see fam_histw::execute_user, kind "stderr-gone": waits for a line, runs, reports on stdout
            core::install_panic_hook();
            let mut line = String::new();
            let _ = std::io::stdin().read_line(&mut line);
            let mut ctx = core::Ctx::new();
            let r = core::guarded(|| fam_wfault::stderr_gone_child(&mut ctx));
            if let Err(p) = r {
                ctx.fails.push(core::Fail { prop: "HARNESS".into(), clause: "escaped-panic".into(), site: p.site(), detail: p.text() });
            }
            println!("F {}", serde_json::to_string(&ctx.fails).unwrap());
            0
        }
        Some("replay") => orch::cmd_replay(&PathBuf::from(args.get(2).cloned().unwrap_or_default())),
        _ => {
            eprintln!("usage: shpsim check <ID> [--tier quick|thorough] | replay <file>");
            2
        }
    };
    // whichever subcommand ran scenarios in this process (minimiser, pinpoint, replay of findings)
    cleanup_scratch();
    std::process::exit(code);
}
