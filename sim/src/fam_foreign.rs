//! Family FOREIGN (C03, C14, C06's null-record clause): the producer is the stub (the reference
//! encoder, with layouts the library's own writer never emits), the consumer is the real reader
//! on simulated sources under masked short-read schedules.

use crate::core::*;
use crate::gen::*;
use crate::geom::*;
use crate::prng::Rng;
use crate::rd::*;
use crate::refcodec::*;
use crate::scn::{Scenario, UnitCtl};
use crate::world::*;
use serde::{Deserialize, Serialize};

/// A caller's own readable shape (the trait is public) that decodes the whole record through the
/// generic enum first and converts afterwards: when the record is of another type, the library's own
/// `MismatchShapeType` comes back after the *whole* record was consumed, not only its type code.
pub struct Whole<S>(pub S);
impl<S: TryFrom<shapefile::Shape, Error = shapefile::Error>> shapefile::ReadableShape for Whole<S> {
    fn read_from<T: std::io::Read>(source: &mut T, record_size: i32) -> Result<Self, shapefile::Error> {
        let shape = <shapefile::Shape as shapefile::ReadableShape>::read_from(source, record_size)?;
        S::try_from(shape).map(Whole)
    }
}
impl<S: Into<shapefile::Shape>> From<Whole<S>> for shapefile::Shape {
    fn from(w: Whole<S>) -> shapefile::Shape {
        w.0.into()
    }
}

#[derive(Clone, Debug, Serialize, Deserialize)]
pub struct ForRec {
    pub number: i32,
    /// ty 0 = null record
    pub geom: Geom,
    pub m_present: bool,
}

#[derive(Clone, Debug, Serialize, Deserialize)]
pub struct ForScn {
    pub ty: i32,
    pub hdr_bbox: [u64; 8],
    pub recs: Vec<ForRec>,
    /// physical order (logical indices); empty = index order
    #[serde(default)]
    pub order: Vec<usize>,
    /// filler before each physically stored record and after the last; empty = none
    #[serde(default)]
    pub filler: Vec<Vec<u8>>,
    /// bytes after the declared file length
    #[serde(default)]
    pub trailing: Vec<u8>,
    pub rstack: StackCfg,
    #[serde(default)]
    pub rplan: Plan,
}

fn file_enc(s: &ForScn) -> FileEnc {
    FileEnc {
        ty: s.ty,
        hdr_bbox: s.hdr_bbox,
        recs: s.recs.iter().map(|r| RecEnc { number: r.number, geom: r.geom.clone(), m_present: r.m_present }).collect(),
        order: s.order.clone(),
        filler: s.filler.clone(),
        declared_words: None,
        trailing: s.trailing.clone(),
    }
}

/// Is the scenario inside the family (spec-conformant content)? The minimiser may leave it.
fn valid(s: &ForScn) -> bool {
    if !ALL_CODES.contains(&s.ty) {
        return false;
    }
    let n = s.recs.len();
    if !s.order.is_empty() {
        let mut o = s.order.clone();
        o.sort();
        if o != (0..n).collect::<Vec<_>>() {
            return false;
        }
    }
    if !s.filler.is_empty() && (s.filler.len() != n + 1 || s.filler.iter().any(|f| f.len() % 2 != 0)) {
        return false;
    }
    for r in &s.recs {
        let g = &r.geom;
        if g.ty == 0 {
            if !g.parts.is_empty() {
                return false;
            }
            continue;
        }
        if g.ty != s.ty {
            return false;
        }
        if is_point(g.ty) {
            if g.parts.len() != 1 || g.parts[0].pts.len() != 1 {
                return false;
            }
            if g.ty == 21 && !r.m_present {
                return false;
            }
        } else {
            if g.bbox.is_none() {
                return false;
            }
            if is_multipoint(g.ty) && g.parts.len() != 1 {
                return false;
            }
            if g.ty == 31 && g.parts.iter().any(|p| !(0..=5).contains(&p.kind)) {
                return false;
            }
        }
        if !has_m(g.ty) && r.m_present {
            return false;
        }
    }
    true
}

/// What the reader must report for record `r`.
fn expected_of(r: &ForRec) -> Geom {
    let mut g = r.geom.clone();
    if g.ty == 0 {
        return g;
    }
    if has_m(g.ty) && !r.m_present {
        for p in g.parts.iter_mut() {
            for v in p.pts.iter_mut() {
                v[3] = NO_DATA_BITS;
            }
        }
    }
    if !has_z(g.ty) {
        for p in g.parts.iter_mut() {
            for v in p.pts.iter_mut() {
                v[2] = 0;
            }
        }
    }
    if !has_m(g.ty) {
        for p in g.parts.iter_mut() {
            for v in p.pts.iter_mut() {
                v[3] = 0;
            }
        }
    }
    g.normalised_for_read()
}

/// Compare a decoded geometry with the expected one: structure, kinds (multipatch), coordinates,
/// and the stored box where a box is stored (x/y; z range of Z types; m range when M is present).
fn diff_foreign(ex: &Geom, m_present: bool, got: &Geom) -> Option<String> {
    if let Some(d) = diff(ex, got, ex.ty == 31, false) {
        return Some(d);
    }
    if let (Some(a), Some(b)) = (&ex.bbox, &got.bbox) {
        let mut idx: Vec<usize> = vec![0, 1, 2, 3];
        if has_z(ex.ty) {
            idx.extend([4, 5]);
        }
        if has_m(ex.ty) && m_present {
            idx.extend([6, 7]);
        }
        for i in idx {
            if a[i] != b[i] {
                return Some(format!("stored box entry {} {:#x} returned as {:#x}", i, a[i], b[i]));
            }
        }
    } else if ex.bbox.is_some() != got.bbox.is_some() {
        return Some("box presence differs".into());
    }
    None
}

fn check_items(ctx: &mut Ctx, prop: &str, route: &str, items: &[Item], capped: bool, s: &ForScn, site: &str) {
    if capped {
        ctx.fail(prop, "terminates", route, format!("{}: iteration exceeded the item cap", route));
        return;
    }
    if items.len() != s.recs.len() {
        ctx.fail(prop, "count", format!("{}:{}", route, site), format!("{}: {} items for {} records: {:?}", route, items.len(), s.recs.len(), items.iter().map(item_short).collect::<Vec<_>>()));
        return;
    }
    for (i, (it, r)) in items.iter().zip(s.recs.iter()).enumerate() {
        match it {
            Err(e) => {
                ctx.fail(prop, "no-error", format!("{}:{}", route, site), format!("{}: record {} ({}, m_present={}) decoded as Err({:?})", route, i, r.geom.short(), r.m_present, e));
                return;
            }
            Ok(g) => {
                if let Some(d) = diff_foreign(&expected_of(r), r.m_present, g) {
                    ctx.fail(prop, "same-geometry", format!("{}:{}", route, site), format!("{}: record {} ({}, m_present={}): {}", route, i, r.geom.short(), r.m_present, d));
                    return;
                }
                // the role of a polygon ring is its orientation: where the exact signed area is not
                // zero and the plain double-precision shoelace sum has the same sign (so that no
                // rounding is involved, see the known finding of C01), clockwise is outer
                if is_polygon(g.ty) {
                    for (ri, part) in g.parts.iter().enumerate() {
                        let Some(exact) = exact_area(&part.pts) else { continue };
                        let naive: f64 = part.pts.windows(2).map(|w| (f64::from_bits(w[1][0]) - f64::from_bits(w[0][0])) * (f64::from_bits(w[1][1]) + f64::from_bits(w[0][1]))).sum();
                        if exact == 0 {
                            continue;
                        }
                        let want = if exact < 0 { 1 } else { 0 };
                        // the double-precision evaluation of the area - the sum, then its half, as the
                        // library computes it - rounds to zero, to NaN or to the other sign
                        let half = naive / 2.0;
                        if half == 0.0 || half.is_nan() || (half < 0.0) != (exact < 0) {
                            // the open known finding of C01 (roles lost to rounding), seen from a
                            // foreign file: reported as its own class under C03, not judged elsewhere
                            if part.kind != want && prop == "C03" {
                                ctx.fail(prop, "ring-role-rounding", "float-area", format!("{}: record {} ring {}: twice the exact signed area is {} units but its double-precision evaluation gives {:e} (halved: {:e}); the ring was returned as {}", route, i, ri, exact, naive, half, if part.kind == 1 { "inner" } else { "outer" }));
                                return;
                            }
                            continue;
                        }
                        if part.kind != want {
                            ctx.fail(prop, "ring-role", format!("{}:{}", route, site), format!("{}: record {} ring {}: twice the exact signed area is {} units, the ring was returned as {}", route, i, ri, exact, if part.kind == 1 { "inner" } else { "outer" }));
                            return;
                        }
                    }
                }
            }
        }
    }
}

pub fn execute(s: &ForScn, ctx: &mut Ctx) {
    if !valid(s) {
        ctx.fail("HARNESS", "invalid-scenario", "foreign", "scenario is outside the FOREIGN family".to_string());
        return;
    }
    let (shp, shx, _offsets) = encode(&file_enc(s));
    let declared = shp.len() - s.trailing.len();
    let n = s.recs.len();
    let has_null = s.recs.iter().any(|r| r.geom.ty == 0);
    let layout_plain = s.order.is_empty() && s.filler.iter().all(|f| f.is_empty());
    let permuted = !s.order.is_empty() && s.order.iter().enumerate().any(|(i, o)| i != *o);
    let site = format!("{}{}", type_name(s.ty), if s.recs.iter().any(|r| has_m(r.geom.ty) && !r.m_present) { ":m-absent" } else { "" });
    let cap = item_cap(shp.len(), shx.len());
    let mk = || World::with_data(s.rplan.clone(), shp.clone(), shx.clone(), vec![]);

    // ---- C03: without index (only meaningful when records are contiguous and in order)
    if layout_plain {
        let world = mk();
        match open(&world, false, s.rstack) {
            Open::Ok(mut r) => {
                match iter_generic(&mut r, cap) {
                    Ok((items, capped)) => check_items(ctx, "C03", "iter_shapes", &items, capped, s, &site),
                    Err(p) => ctx.fail("C03", "panic", p.site(), format!("iter_shapes: {}", p.text())),
                }
                // nothing is read past the declared length (Direct stack: the log is what the library asked for)
                if s.rstack == StackCfg::Direct {
                    let wb = world.borrow();
                    for e in wb.log.iter().filter(|e| e.dev as usize == SHP && e.kind == OpKind::Read) {
                        if e.pos + e.moved as u64 > declared as u64 {
                            // not a violation in itself ("ignored" is judged on the decoded result, which
                            // is compared with the model above): only counted
                            ctx.stats.reach("read-beyond-declared-length");
                            break;
                        }
                    }
                    if !s.trailing.is_empty() {
                        ctx.stats.reach("trailing-bytes");
                    }
                }
            }
            Open::Err(e) => ctx.fail("C03", "open", site.clone(), format!("open failed: {:?}", e)),
            Open::Panic(p) => ctx.fail("C03", "panic", p.site(), format!("open: {}", p.text())),
        }
        ctx.stats.absorb_world(&world.borrow());
        let world = mk();
        if let Open::Ok(r) = open(&world, false, s.rstack) {
            match read_generic(r) {
                Ok(Ok(v)) => check_items(ctx, "C03", "read", &v.into_iter().map(Ok).collect::<Vec<_>>(), false, s, &site),
                Ok(Err(e)) => ctx.fail("C03", "no-error", format!("read:{}", site), format!("read() failed: {:?}", e)),
                Err(p) => ctx.fail("C03", "panic", p.site(), format!("read: {}", p.text())),
            }
        }
        if s.ty != 0 {
            // typed routes
            let world = mk();
            if let Open::Ok(mut r) = open(&world, false, s.rstack) {
                match iter_typed(&mut r, s.ty, cap) {
                    Ok((items, capped)) => {
                        if !has_null {
                            check_items(ctx, "C03", "iter_shapes_as", &items, capped, s, &site);
                        } else {
                            // C06: genuine shapes before the first null record, then Mismatch{T, NullShape}
                            let k = s.recs.iter().position(|r| r.geom.ty == 0).unwrap();
                            ctx.stats.reach("typed-read-meets-null-record");
                            let want = RErr::Mismatch { requested: s.ty, actual: 0 };
                            let ok = items.len() > k
                                && items[..k].iter().zip(s.recs.iter()).all(|(it, r)| matches!(it, Ok(g) if diff_foreign(&expected_of(r), r.m_present, g).is_none()))
                                && items[k] == Err(want);
                            if !ok {
                                ctx.fail("C06", "typed-read-null-record", type_name(s.ty), format!("iter_shapes_as::<{}> over a file whose record {} is null gave {:?}", type_name(s.ty), k, items.iter().take(k + 1).map(item_short).collect::<Vec<_>>()));
                            }
                        }
                    }
                    Err(p) => ctx.fail("C03", "panic", p.site(), format!("iter_shapes_as: {}", p.text())),
                }
            }
            if !has_null {
                let world = mk();
                if let Open::Ok(r) = open(&world, false, s.rstack) {
                    match read_typed(r, s.ty) {
                        Ok(Ok(v)) => check_items(ctx, "C03", "read_as", &v.into_iter().map(Ok).collect::<Vec<_>>(), false, s, &site),
                        Ok(Err(e)) => {
                            if n > 0 {
                                ctx.fail("C03", "no-error", format!("read_as:{}", site), format!("read_as() failed: {:?}", e))
                            }
                        }
                        Err(p) => ctx.fail("C03", "panic", p.site(), format!("read_as: {}", p.text())),
                    }
                }
                // C06: typed read == generic read + conversion, for every requested type
                if n > 0 {
                    crate::fam_rt::check_c06(ctx, s.ty, &shp, n, s.rstack, &s.rplan);
                }
                // the shapes as read (they can hold what no constructor builds: empty parts, one-point
                // lines, zero parts) written back with the library's own writer
                if n > 0 {
                    let world = mk();
                    if let Open::Ok(r) = open(&world, false, s.rstack) {
                        if let Ok(Ok(shapes)) = read_generic_shapes(r) {
                            rewrite_route(ctx, s, &shapes, &site);
                        }
                    }
                }
            }
        }
    }

    // ---- C03 with the index, the reading split over two iterators of the same reader: the first
    // takes half of the records, the second yields the rest (or, C15, all of them again) - whatever
    // record numbers the file stores
    if layout_plain && n >= 2 {
        let world = mk();
        if let Open::Ok(mut r) = open(&world, true, s.rstack) {
            let k = n / 2;
            let res = guarded(|| {
                let mut first: Vec<Item> = Vec::new();
                {
                    let mut it = r.iter_shapes();
                    for _ in 0..k {
                        match it.next() {
                            Some(x) => first.push(x.map(|s| capture(&s)).map_err(|e| classify(&e))),
                            None => break,
                        }
                    }
                }
                let (rest, capped) = drain(r.iter_shapes(), cap);
                (first, rest, capped)
            });
            match res {
                Ok((first, rest, capped)) => {
                    let all: Vec<Item> = if rest.len() == n { rest } else { first.into_iter().chain(rest).collect() };
                    check_items(ctx, "C03", "split-iteration", &all, capped, s, &site);
                }
                Err(p) => ctx.fail("C03", "panic", p.site(), format!("split iteration: {}", p.text())),
            }
        }
        ctx.stats.absorb_world(&world.borrow());
    }

    // ---- C03 with the index: all but the last two records through next(), the next one asked for as
    // another type (an error; the source is then somewhere inside that record), and the remaining
    // single record through Iterator::last()
    if layout_plain && n >= 2 && s.ty != 0 && !has_null {
        let world = mk();
        if let Open::Ok(mut r) = open(&world, true, s.rstack) {
            let other = if s.ty == 31 { 1 } else { 31 };
            let res = guarded(|| {
                {
                    let mut it = r.iter_shapes();
                    for _ in 0..n - 2 {
                        let _ = it.next();
                    }
                }
                // exactly one item of a typed iteration of another type: an error, one entry consumed
                crate::on_type!(other, S => { let _ = r.iter_shapes_as::<S>().next(); }, ());
                r.iter_shapes().last().map(|x| x.map(|s| capture(&s)).map_err(|e| classify(&e)))
            });
            match res {
                Ok(Some(item)) => {
                    let rec = &s.recs[n - 1];
                    match &item {
                        Ok(g) if diff_foreign(&expected_of(rec), rec.m_present, g).is_none() => {}
                        _ => ctx.fail("C03", "same-geometry", format!("last-after-refused-typed-read:{}", site), format!("after {} records and a refused typed read, iter_shapes().last() = {} instead of record {} ({})", n - 2, item_short(&item), n - 1, rec.geom.short())),
                    }
                }
                Ok(None) => ctx.fail("C03", "count", format!("last-after-refused-typed-read:{}", site), format!("after {} records and a refused typed read, iter_shapes().last() = None with {} records", n - 2, n)),
                Err(p) => ctx.fail("C03", "panic", p.site(), format!("last after a refused typed read: {}", p.text())),
            }
        }
        ctx.stats.absorb_world(&world.borrow());
    }

    // ---- C03 with the index, after a seek that failed: the source's seek moves and then reports an
    // error once (a layered or remote stream); whatever the reader then yields is still the file's
    // records, from the first or from the one sought
    if layout_plain && n >= 2 {
        for target in [n - 1, 1] {
            // a fresh reader each time: nothing has been consumed when the seek fails
            let world = World::with_data(Plan::default(), shp.clone(), shx.clone(), vec![]);
            if let Open::Ok(mut r) = open(&world, true, StackCfg::Direct) {
                {
                    let mut wb = world.borrow_mut();
                    let at = wb.devices[SHP].ops;
                    wb.plan.faults.push(Fault { dev: SHP as u8, at, kind: FaultKind::ErrMoved(0), persistent: false });
                }
                let failed = matches!(guarded(|| r.seek(target).is_err()), Ok(true));
                match iter_generic(&mut r, cap) {
                    Ok((items, capped)) => {
                        let fits = |from: usize| items.len() == n - from && items.iter().zip(s.recs[from..].iter()).all(|(it, rec)| matches!(it, Ok(g) if diff_foreign(&expected_of(rec), rec.m_present, g).is_none()));
                        if capped || !(fits(0) || fits(target)) {
                            ctx.fail("C03", "same-geometry", format!("after-failed-seek:{}", site), format!("seek({}) {} (its source seek moved, then reported an error); the iteration that follows yielded {:?} over {} records", target, if failed { "failed" } else { "did not fail" }, items.iter().map(item_short).collect::<Vec<_>>(), n));
                            break;
                        }
                    }
                    Err(p) => {
                        ctx.fail("C03", "panic", p.site(), format!("iteration after a failed seek: {}", p.text()));
                        break;
                    }
                }
                ctx.stats.reach("foreign-iteration-after-failed-seek");
            }
            ctx.stats.absorb_world(&world.borrow());
        }
    }

    // ---- C14: with the index, located by the index alone
    let world = mk();
    let lsite = if permuted { "permuted" } else if !layout_plain { "filler" } else { "plain" };
    match open(&world, true, s.rstack) {
        Open::Ok(mut r) => {
            match r.shape_count() {
                Ok(c) if c == n => {}
                other => ctx.fail("C14", "shape-count", lsite, format!("shape_count() = {:?} for {} index entries", other.map_err(|e| classify(&e)), n)),
            }
            let before = world.borrow().log.iter().filter(|e| e.dev as usize == SHP && e.kind == OpKind::Seek).count();
            match iter_generic(&mut r, cap) {
                Ok((items, capped)) => {
                    check_items(ctx, "C14", "iter_shapes", &items, capped, s, lsite);
                    // the same stream decoded record by record through its index is still "decoded to
                    // exactly the geometry it encodes": C03 does not depend on the route
                    check_items(ctx, "C03", "iter_shapes-with-index", &items, capped, s, lsite);
                    let after = world.borrow().log.iter().filter(|e| e.dev as usize == SHP && e.kind == OpKind::Seek).count();
                    ctx.stats.reach_n("seeks-during-indexed-iteration", (after - before) as u64);
                    // agreement with random access
                    for i in 0..n {
                        match nth_generic(&mut r, i) {
                            Ok(Some(x)) => {
                                if items.get(i) != Some(&x) {
                                    ctx.fail("C14", "iteration-vs-random-access", lsite, format!("item {} of the iteration is {:?} but read_nth_shape({}) = {}", i, items.get(i).map(item_short), i, item_short(&x)));
                                    break;
                                }
                            }
                            Ok(None) => {
                                ctx.fail("C14", "iteration-vs-random-access", lsite, format!("read_nth_shape({}) = None with {} entries", i, n));
                                break;
                            }
                            Err(p) => {
                                ctx.fail("C14", "panic", p.site(), format!("read_nth_shape({}): {}", i, p.text()));
                                break;
                            }
                        }
                    }
                }
                Err(p) => {
                    ctx.fail("C14", "panic", p.site(), format!("indexed iter_shapes: {}", p.text()));
                    ctx.fail("C03", "panic", p.site(), format!("indexed iter_shapes: {}", p.text()));
                }
            }
            // a random access that fails (wrong type requested) must not disturb what the index says:
            // a following iteration still yields one shape per entry, in index order
            if n > 0 && s.ty != 0 {
                let other = if s.ty == 31 { 1 } else { 31 };
                let _ = nth_typed(&mut r, other, 0);
                match iter_generic(&mut r, cap) {
                    Ok((items, capped)) => check_items(ctx, "C14", "iter_shapes-after-failed-typed-access", &items, capped, s, lsite),
                    Err(p) => ctx.fail("C14", "panic", p.site(), format!("iteration after a failed typed access: {}", p.text())),
                }
            }
        }
        Open::Err(e) => ctx.fail("C14", "open", lsite, format!("with_shx failed: {:?}", e)),
        Open::Panic(p) => ctx.fail("C14", "panic", p.site(), format!("with_shx: {}", p.text())),
    }
    ctx.stats.absorb_world(&world.borrow());
    if has_null && s.ty != 0 && n >= 2 {
        // a typed loop that stops at the first record it cannot give (a null record), then a second
        // loop on the same reader: together one item per index entry, in index order
        let world = mk();
        if let Open::Ok(mut r) = open(&world, true, s.rstack) {
            let ty = s.ty;
            let res = guarded(|| {
                let mut first: Vec<Item> = Vec::new();
                crate::on_type!(ty, S => {
                    for x in r.iter_shapes_as::<S>() {
                        let stop = x.is_err();
                        first.push(x.map(|s| s.to_geom()).map_err(|e| classify(&e)));
                        if stop {
                            break;
                        }
                    }
                }, ());
                let (rest, capped) = drain(r.iter_shapes(), cap);
                (first, rest, capped)
            });
            match res {
                Ok((first, rest, capped)) => {
                    let k = first.len();
                    let typed_ok = k >= 1 && first[..k - 1].iter().all(|x| x.is_ok()) && (k == n && first[k - 1].is_ok() || matches!(&first[k - 1], Err(RErr::Mismatch { actual: 0, .. })));
                    let rest_ok = !capped && rest.len() == n - k && rest.iter().zip(s.recs[k.min(n)..].iter()).all(|(it, rec)| matches!(it, Ok(g) if diff_foreign(&expected_of(rec), rec.m_present, g).is_none()));
                    if !typed_ok || !rest_ok {
                        ctx.fail("C14", "count", format!("two-loops:{}", lsite), format!("a typed loop up to its first error yielded {:?}, a second loop then {:?}: not one item per index entry ({} entries)", first.iter().map(item_short).collect::<Vec<_>>(), rest.iter().map(item_short).collect::<Vec<_>>(), n));
                    }
                }
                Err(p) => ctx.fail("C14", "panic", p.site(), format!("two loops: {}", p.text())),
            }
        }
        ctx.stats.absorb_world(&world.borrow());
    }
    if n >= 1 && s.ty != 0 {
        // typed iteration through a caller-defined ReadableShape that consumes the whole record before
        // it reports the mismatch: one item per index entry, each the record of its entry or the
        // mismatch of its entry; (a) asking for the file's type (null records are the mismatches),
        // (b) asking for another type (every record is one)
        let others: Vec<i32> = [1, 5, 18, 31].into_iter().filter(|c| *c != s.ty).collect();
        let other = others[n % others.len()];
        for asked in [s.ty, other] {
            let world = mk();
            if let Open::Ok(mut r) = open(&world, true, s.rstack) {
                let res = guarded(|| crate::on_type!(asked, S => drain(r.iter_shapes_as::<Whole<S>>(), cap), (Vec::new(), false)));
                match res {
                    Ok((items, capped)) => {
                        let ok = !capped
                            && items.len() == n
                            && items.iter().zip(s.recs.iter()).all(|(it, rec)| {
                                if rec.geom.ty == asked {
                                    matches!(it, Ok(g) if diff_foreign(&expected_of(rec), rec.m_present, g).is_none())
                                } else {
                                    *it == Err(RErr::Mismatch { requested: asked, actual: rec.geom.ty })
                                }
                            });
                        if !ok {
                            ctx.fail("C14", "count", format!("whole-record-user-shape:{}", lsite), format!("iter_shapes_as::<a user shape that reads the whole record, then converts to {}> over {} index entries of {} yielded {:?}: not one item per entry, each its record or its mismatch", type_name(asked), n, type_name(s.ty), items.iter().map(item_short).collect::<Vec<_>>()));
                        }
                        ctx.stats.reach("typed-iteration-by-whole-record-user-shape");
                    }
                    Err(p) => ctx.fail("C14", "panic", p.site(), format!("whole-record user shape: {}", p.text())),
                }
            }
            ctx.stats.absorb_world(&world.borrow());
        }
    }
    if n >= 2 {
        // one item taken, the iterator leaked (mem::forget: no destructor runs), then a second
        // iteration on the same reader: the remaining entries, or all of them
        let world = mk();
        if let Open::Ok(mut r) = open(&world, true, s.rstack) {
            let res = guarded(|| {
                let mut it = r.iter_shapes();
                let first = it.next().map(|x| x.map(|s| capture(&s)).map_err(|e| classify(&e)));
                std::mem::forget(it);
                let (rest, capped) = drain(r.iter_shapes(), cap);
                (first, rest, capped)
            });
            match res {
                Ok((first, rest, capped)) => {
                    let fits = |from: usize| rest.len() == n - from && rest.iter().zip(s.recs[from..].iter()).all(|(it, rec)| matches!(it, Ok(g) if diff_foreign(&expected_of(rec), rec.m_present, g).is_none()));
                    let first_ok = matches!(&first, Some(Ok(g)) if diff_foreign(&expected_of(&s.recs[0]), s.recs[0].m_present, g).is_none());
                    if capped || !first_ok || !(fits(1) || fits(0)) {
                        ctx.fail("C14", "count", format!("leaked-iterator:{}", lsite), format!("one item ({:?}), the iterator leaked, then {:?}: not the records of the remaining (or of all) index entries", first.as_ref().map(item_short), rest.iter().map(item_short).collect::<Vec<_>>()));
                    }
                }
                Err(p) => ctx.fail("C14", "panic", p.site(), format!("leaked iterator: {}", p.text())),
            }
        }
        ctx.stats.absorb_world(&world.borrow());
    }
    if n >= 1 {
        // Iterator::last() on a fresh indexed reader: the record of the last entry, wherever it is stored
        let world = mk();
        if let Open::Ok(mut r) = open(&world, true, s.rstack) {
            match guarded(|| r.iter_shapes().last().map(|x| x.map(|s| capture(&s)).map_err(|e| classify(&e)))) {
                Ok(Some(item)) => {
                    let rec = &s.recs[n - 1];
                    match &item {
                        Ok(g) if diff_foreign(&expected_of(rec), rec.m_present, g).is_none() => {}
                        _ => ctx.fail("C14", "same-geometry", format!("last:{}", lsite), format!("iter_shapes().last() = {} instead of the record of the last entry ({})", item_short(&item), rec.geom.short())),
                    }
                }
                Ok(None) => ctx.fail("C14", "count", format!("last:{}", lsite), format!("iter_shapes().last() = None with {} entries", n)),
                Err(p) => ctx.fail("C14", "panic", p.site(), format!("last: {}", p.text())),
            }
        }
        ctx.stats.absorb_world(&world.borrow());
    }
    if permuted {
        ctx.stats.reach("physical-order-permuted");
    }
    if s.filler.iter().any(|f| !f.is_empty()) {
        ctx.stats.reach("filler-present");
    }
    if s.recs.iter().any(|r| has_m(r.geom.ty) && r.geom.ty != 21 && !r.m_present) {
        ctx.stats.reach("optional-m-absent");
    }
    if has_null {
        ctx.stats.reach("null-record");
    }
    let sig = format!("{}|{:?}|{:?}|{:?}|{}", s.ty, s.recs.iter().map(|r| (r.geom.ty, r.m_present, r.geom.parts.iter().map(|p| p.pts.len()).collect::<Vec<_>>())).collect::<Vec<_>>(), s.order, s.filler.iter().map(|f| f.len()).collect::<Vec<_>>(), s.trailing.len());
    if n > 0 {
        ctx.stats.distinct.insert(crate::prng::fnv_str(&sig));
    }
    // ---- the same two files on disk, read by path (a quarter of the scenarios, chosen by content):
    // the .shx lying next to the .shp is "supplied" to every by-path entry point
    if n > 0 && crate::prng::fnv_str(&sig) % 4 == 0 {
        by_path(ctx, s, &shp, &shx, has_null, lsite);
    }
}

/// Read-then-rewrite: every shape decoded from the foreign file goes through `ShapeWriter`.
/// C18: the size it announces is what `write_to` emits and what the record header stores;
/// C04: the index addresses the records, found by walking the stored lengths; the rewritten
/// file reads back (with and without index) as the same shapes.
fn rewrite_route(ctx: &mut Ctx, s: &ForScn, shapes: &[shapefile::Shape], site: &str) {
    use crate::on_shape;
    use shapefile::record::WritableShape;
    let mut announced: Vec<usize> = Vec::new();
    for (i, sh) in shapes.iter().enumerate() {
        let (ann, emitted) = on_shape!(sh, c => {
            let mut v: Vec<u8> = Vec::new();
            let r = c.write_to(&mut v);
            (c.size_in_bytes(), r.map(|_| v.len()).map_err(|e| classify(&e)))
        }, (0, Ok(0)));
        if emitted != Ok(ann) {
            ctx.fail("C18", "write_to-length", format!("reread:{}", type_name(s.ty)), format!("shape {} as read from a foreign file ({}): size_in_bytes() = {} but write_to emitted {:?}", i, capture(sh).short(), ann, emitted));
        }
        announced.push(ann);
    }
    let world = World::new(Plan::default());
    let r = guarded(|| -> Result<(), shapefile::Error> {
        let mut w = shapefile::ShapeWriter::with_shx(Stack::writer(&world, SHP, StackCfg::Direct), Stack::writer(&world, SHX, StackCfg::Direct));
        for sh in shapes {
            on_shape!(sh, c => w.write_shape(c)?, ());
        }
        w.finalize()
    });
    match r {
        Ok(Ok(())) => {}
        Ok(Err(e)) => {
            ctx.fail("C04", "rewrite", site.to_string(), format!("writing back the shapes read from a foreign file failed: {:?}", classify(&e)));
            return;
        }
        Err(p) => {
            ctx.fail("C04", "panic", p.site(), format!("writing back the shapes read from a foreign file: {}", p.text()));
            return;
        }
    }
    ctx.stats.reach("foreign-shapes-written-back");
    let (shp, shx) = {
        let wb = world.borrow();
        (wb.data(SHP).to_vec(), wb.data(SHX).to_vec())
    };
    // walk the records by their stored lengths
    let be = |b: &[u8], o: usize| i32::from_be_bytes([b[o], b[o + 1], b[o + 2], b[o + 3]]);
    let mut o = 100usize;
    let mut k = 0usize;
    while o + 8 <= shp.len() && k < announced.len() {
        let words = be(&shp, o + 4);
        if words as i64 != ((announced[k] + 4) / 2) as i64 {
            ctx.fail("C18", "content-length-field", format!("reread:{}", type_name(s.ty)), format!("record {} of the rewritten file stores {} content words for an announced size of {} bytes", k + 1, words, announced[k]));
            return;
        }
        if shx.len() >= 100 + 8 * (k + 1) {
            let (eo, el) = (be(&shx, 100 + 8 * k), be(&shx, 104 + 8 * k));
            if eo as i64 * 2 != o as i64 || el != words {
                ctx.fail("C04", "index-bytes", site.to_string(), format!("rewritten file: index entry {} = ({}, {}) but record {} starts at word {} with {} content words", k, eo, el, k, o / 2, words));
                return;
            }
        }
        o += 8 + 2 * words as usize;
        k += 1;
    }
    if k != announced.len() || o != shp.len() || be(&shp, 24) as i64 * 2 != shp.len() as i64 || shx.len() != 100 + 8 * k || be(&shx, 24) as usize != 50 + 4 * k {
        ctx.fail("C04", "index-bytes", site.to_string(), format!("rewritten file: {} records walked to offset {} of {} bytes (header says {} words), index of {} bytes (header says {} words) for {} shapes", k, o, shp.len(), be(&shp, 24), shx.len(), be(&shx, 24), announced.len()));
        return;
    }
    // and it reads back as what was read the first time
    let first: Vec<Geom> = shapes.iter().map(capture).collect();
    for with_index in [false, true] {
        let w2 = World::with_data(Plan::default(), shp.clone(), shx.clone(), vec![]);
        match open(&w2, with_index, StackCfg::Direct) {
            Open::Ok(mut r) => match iter_generic(&mut r, shapes.len() + 4) {
                Ok((items, _)) => {
                    let same = items.len() == first.len() && items.iter().zip(first.iter()).all(|(a, b)| matches!(a, Ok(g) if diff(&b.normalised_for_read(), g, b.ty == 31, false).is_none()));
                    if !same {
                        ctx.fail("C04", "rewritten-file-reads-back", format!("{}:{}", if with_index { "shx" } else { "noshx" }, site), format!("the rewritten file reads back as {:?} instead of {:?}", items.iter().map(item_short).collect::<Vec<_>>(), first.iter().map(|g| g.short()).collect::<Vec<_>>()));
                    }
                }
                Err(p) => ctx.fail("C04", "panic", p.site(), format!("reading the rewritten file: {}", p.text())),
            },
            Open::Err(e) => ctx.fail("C04", "rewritten-file-reads-back", site.to_string(), format!("the rewritten file cannot be opened: {:?}", e)),
            Open::Panic(p) => ctx.fail("C04", "panic", p.site(), p.text()),
        }
    }
}

fn by_path(ctx: &mut Ctx, s: &ForScn, shp: &[u8], shx: &[u8], has_null: bool, lsite: &str) {
    let dir = crate::scratch_dir();
    let h = crate::prng::fnv(shp) ^ crate::prng::fnv(shx);
    let base = dir.join(format!("foreign-{}", h));
    let shp_path = base.with_extension("shp");
    // half of them as a data set of symbolic links into a store whose files have other names
    // (content-addressed trees): the index is the .shx next to the path the caller passes
    let linked = h % 2 == 0;
    let (store_shp, store_shx) = (dir.join(format!("store-{}-a", h)), dir.join(format!("store-{}-b", h)));
    let written = if linked {
        std::fs::write(&store_shp, shp).is_ok()
            && std::fs::write(&store_shx, shx).is_ok()
            && std::os::unix::fs::symlink(&store_shp, &shp_path).is_ok()
            && std::os::unix::fs::symlink(&store_shx, base.with_extension("shx")).is_ok()
    } else {
        std::fs::write(&shp_path, shp).is_ok() && std::fs::write(base.with_extension("shx"), shx).is_ok()
    };
    if !written {
        ctx.fail("HARNESS", "scratch", "foreign", "cannot write the scratch files".to_string());
        return;
    }
    ctx.stats.reach(if linked { "foreign-by-path-through-links" } else { "foreign-by-path" });
    let to_items = |v: Vec<Geom>| v.into_iter().map(Ok).collect::<Vec<Item>>();
    let generic = guarded(|| shapefile::read_shapes(&shp_path).map_err(|e| classify(&e)));
    match &generic {
        Ok(Ok(v)) => check_items(ctx, "C14", "read_shapes(path)", &to_items(v.iter().map(capture).collect()), false, s, lsite),
        Ok(Err(e)) => ctx.fail("C14", "no-error", format!("read_shapes(path):{}", lsite), format!("read_shapes(path) failed: {:?}", e)),
        Err(p) => ctx.fail("C14", "panic", p.site(), format!("read_shapes(path): {}", p.text())),
    }
    match guarded(|| shapefile::ShapeReader::from_path(&shp_path).and_then(|r| r.read()).map_err(|e| classify(&e))) {
        Ok(Ok(v)) => check_items(ctx, "C14", "from_path.read", &to_items(v.iter().map(capture).collect()), false, s, lsite),
        Ok(Err(e)) => ctx.fail("C14", "no-error", format!("from_path.read:{}", lsite), format!("ShapeReader::from_path(..).read() failed: {:?}", e)),
        Err(p) => ctx.fail("C14", "panic", p.site(), format!("from_path.read: {}", p.text())),
    }
    if s.ty != 0 && !has_null {
        let ty = s.ty;
        let typed = guarded(|| crate::on_type!(ty, S => shapefile::read_shapes_as::<_, S>(&shp_path).map(|v| v.into_iter().map(|x| x.to_geom()).collect::<Vec<Geom>>()).map_err(|e| classify(&e)), Err(RErr::InvalidShapeType(ty))));
        match typed {
            Ok(Ok(t)) => {
                check_items(ctx, "C14", "read_shapes_as(path)", &to_items(t.clone()), false, s, lsite);
                // C06: the typed by-path read is the generic by-path read, converted
                if let Ok(Ok(g)) = guarded(|| shapefile::read_shapes(&shp_path).map_err(|e| classify(&e))) {
                    match convert_typed(g, ty) {
                        Ok(Ok(c)) => {
                            if c != t {
                                ctx.fail("C06", "typed-equals-generic-converted", "by-path", format!("read_shapes_as::<{}>(path) differs from read_shapes(path) converted: {:?} vs {:?}", type_name(ty), t.iter().map(|g| g.short()).collect::<Vec<_>>(), c.iter().map(|g| g.short()).collect::<Vec<_>>()));
                            }
                        }
                        Ok(Err(e)) => ctx.fail("C06", "typed-equals-generic-converted", "by-path", format!("conversion of read_shapes(path) failed: {:?}", e)),
                        Err(p) => ctx.fail("C06", "panic", p.site(), p.text()),
                    }
                }
            }
            Ok(Err(e)) => ctx.fail("C14", "no-error", format!("read_shapes_as(path):{}", lsite), format!("read_shapes_as(path) failed: {:?}", e)),
            Err(p) => ctx.fail("C14", "panic", p.site(), format!("read_shapes_as(path): {}", p.text())),
        }
    }
    let _ = std::fs::remove_file(&shp_path);
    let _ = std::fs::remove_file(base.with_extension("shx"));
    let _ = std::fs::remove_file(&store_shp);
    let _ = std::fs::remove_file(&store_shx);
}

/// A geometry generated directly (not through constructors): any part structure incl. empty.
pub fn gen_foreign_geom(r: &mut Rng, ty: i32, xy: u32, zm: u32) -> Geom {
    let vert = |r: &mut Rng| -> V { [gen_f64(r, xy), gen_f64(r, xy), if has_z(ty) { gen_f64(r, zm) } else { 0 }, if has_m(ty) { gen_f64(r, zm) } else { 0 }] };
    if is_point(ty) {
        return Geom { ty, parts: vec![Part { kind: -1, pts: vec![vert(r)] }], bbox: None };
    }
    let bbox: [u64; 8] = [gen_f64(r, xy), gen_f64(r, xy), gen_f64(r, xy), gen_f64(r, xy), if has_z(ty) { gen_f64(r, zm) } else { 0 }, if has_z(ty) { gen_f64(r, zm) } else { 0 }, if has_m(ty) { gen_f64(r, zm) } else { 0 }, if has_m(ty) { gen_f64(r, zm) } else { 0 }];
    let nparts = if is_multipoint(ty) { 1 } else if r.chance(1, 8) { 0 } else { r.usize(1, 4) };
    let mut parts = Vec::new();
    for _ in 0..nparts {
        let n = match r.below(8) {
            0 => 0,
            1 => 1,
            _ => r.usize(2, 7),
        };
        let kind = if ty == 31 { r.below(6) as i32 } else { -1 };
        parts.push(Part { kind, pts: (0..n).map(|_| vert(r)).collect() });
    }
    Geom { ty, parts, bbox: Some(bbox) }
}

pub fn generate(r: &mut Rng, focus: &str) -> ForScn {
    let ty = if focus == "C14" { *r.pick(&TYPES) } else { *r.pick(&ALL_CODES) };
    let mut xy = 0u32;
    let mut zm = 0u32;
    for i in 0..9 {
        if r.chance(2, 5) {
            xy |= 1 << i;
        }
        if r.chance(2, 5) {
            zm |= 1 << i;
        }
    }
    if xy == 0 {
        xy = F_SMALLINT;
    }
    if zm == 0 {
        zm = F_SMALLINT;
    }
    let n = if r.chance(1, 12) { 0 } else { r.usize(1, 6) };
    let mut recs = Vec::new();
    for i in 0..n {
        let null = ty == 0 || (focus != "C14" && r.chance(1, 7));
        let geom = if null { Geom::null() } else { gen_foreign_geom(r, ty, xy, zm) };
        let m_present = if geom.ty == 0 || !has_m(geom.ty) { false } else if geom.ty == 21 { true } else { r.chance(1, 2) };
        let number = match r.below(6) {
            0 => r.range(-5, 5) as i32,
            1 => 1,
            2 => i32::MAX,
            _ => i as i32 + 1,
        };
        recs.push(ForRec { number, geom, m_present });
    }
    let (order, filler) = if focus == "C14" || r.chance(1, 4) {
        let mut o: Vec<usize> = (0..n).collect();
        if r.chance(2, 3) {
            r.shuffle(&mut o);
        }
        let f: Vec<Vec<u8>> = (0..=n)
            .map(|_| {
                if r.chance(1, 2) {
                    vec![]
                } else {
                    let len = 2 * r.usize(0, 20);
                    let mut b: Vec<u8> = (0..len).map(|_| r.next() as u8).collect();
                    if len >= 12 && r.chance(1, 2) {
                        // looks like a record header followed by a type code
                        b[0..4].copy_from_slice(&1i32.to_be_bytes());
                        b[4..8].copy_from_slice(&10i32.to_be_bytes());
                        b[8..12].copy_from_slice(&1i32.to_le_bytes());
                    }
                    b
                }
            })
            .collect();
        (o, f)
    } else {
        (vec![], vec![])
    };
    let trailing: Vec<u8> = if r.chance(1, 4) { (0..r.usize(1, 60)).map(|_| r.next() as u8).collect() } else { vec![] };
    let hdr_bbox: [u64; 8] = [gen_f64(r, xy), gen_f64(r, xy), gen_f64(r, xy), gen_f64(r, xy), gen_f64(r, zm), gen_f64(r, zm), gen_f64(r, zm), gen_f64(r, zm)];
    let mut rplan = Plan::default();
    rplan.dev[SHP] = gen_devcfg(r, true);
    rplan.dev[SHX] = gen_devcfg(r, true);
    ForScn { ty, hdr_bbox, recs, order, filler, trailing, rstack: gen_stack(r), rplan }
}

fn permutations(n: usize) -> Vec<Vec<usize>> {
    if n == 0 {
        return vec![vec![]];
    }
    let mut out = Vec::new();
    for p in permutations(n - 1) {
        for i in 0..=p.len() {
            let mut q = p.clone();
            q.insert(i, n - 1);
            out.push(q);
        }
    }
    out
}

/// C14 sweep: unit = type index; n = 1..=4 records, all n! physical orders x 3 filler patterns.
pub fn c14_sweep_unit(unit: u64, ctx: &mut Ctx, ctl: &mut UnitCtl) {
    let ty = TYPES[(unit % 13) as usize];
    let mut r = Rng::new(0xC14 + unit);
    for n in 1..=4usize {
        let recs: Vec<ForRec> = (0..n)
            .map(|i| {
                let mut g = gen_foreign_geom(&mut r, ty, F_SMALLINT, F_SMALLINT);
                // pairwise different sizes where the type allows it
                if !is_point(ty) {
                    let extra: V = [(i as f64).to_bits(), 1f64.to_bits(), 0, 0];
                    if g.parts.is_empty() {
                        g.parts.push(Part { kind: if ty == 31 { 0 } else { -1 }, pts: vec![] });
                    }
                    for _ in 0..=i {
                        g.parts[0].pts.push(extra);
                    }
                } else {
                    g.parts[0].pts[0][0] = ((100 + i) as f64).to_bits();
                }
                ForRec { number: i as i32 + 1, geom: g, m_present: has_m(ty) }
            })
            .collect();
        for order in permutations(n) {
            for fp in 0..3 {
                let filler: Vec<Vec<u8>> = match fp {
                    0 => vec![],
                    1 => (0..=n).map(|k| vec![0xAB; 2 * (k % 3)]).collect(),
                    _ => (0..=n)
                        .map(|k| {
                            let mut b = vec![0u8; 12 + 2 * k];
                            b[0..4].copy_from_slice(&1i32.to_be_bytes());
                            b[4..8].copy_from_slice(&10i32.to_be_bytes());
                            b[8..12].copy_from_slice(&ty.to_le_bytes());
                            b
                        })
                        .collect(),
                };
                let scn = ForScn { ty, hdr_bbox: [0; 8], recs: recs.clone(), order: order.clone(), filler, trailing: vec![], rstack: if fp == 1 { StackCfg::Buf(16) } else { StackCfg::Direct }, rplan: Plan::default() };
                if !ctl.before_case(|| Scenario::Foreign(scn.clone())) {
                    continue;
                }
                ctx.stats.evaluations += 1;
                execute(&scn, ctx);
                ctl.after_case(ctx, || Scenario::Foreign(scn.clone()));
            }
        }
    }
}

/// C03 sweep: unit = type code index (14); every optional-M variant combination over 3 records,
/// with degenerate part structures.
pub fn c03_sweep_unit(unit: u64, ctx: &mut Ctx, ctl: &mut UnitCtl) {
    let ty = ALL_CODES[(unit % 14) as usize];
    let mut r = Rng::new(0xC03 + unit);
    if is_polygon(ty) {
        // rings of tiny but exactly non-zero area in both orientations: a hole of side 2^-30 at
        // (10, 10); a sliver whose x coordinates are 0, 1 and 2 units of the smallest subnormal
        let u = f64::from_bits(1);
        let v = |x: f64, y: f64| -> V { [x.to_bits(), y.to_bits(), if has_z(ty) { 1f64.to_bits() } else { 0 }, if has_m(ty) { 2f64.to_bits() } else { 0 }] };
        let d = (2.0f64).powi(-30);
        let rings: Vec<Vec<V>> = vec![
            vec![v(10.0, 10.0), v(10.0 + d, 10.0), v(10.0 + d, 10.0 + d), v(10.0, 10.0 + d), v(10.0, 10.0)],
            vec![v(0.0, 0.5), v(-u, 0.5), v(-2.0 * u, 0.5), v(-2.0 * u, -0.5), v(0.0, 0.5)],
        ];
        for ring in rings {
            for rev in [false, true] {
                let pts: Vec<V> = if rev { ring.iter().rev().copied().collect() } else { ring.clone() };
                let g = Geom { ty, parts: vec![Part { kind: -1, pts }], bbox: Some([0; 8]) };
                let scn = ForScn { ty, hdr_bbox: [0; 8], recs: vec![ForRec { number: 1, geom: g, m_present: has_m(ty) }], order: vec![], filler: vec![], trailing: vec![], rstack: StackCfg::Direct, rplan: Plan::default() };
                if !ctl.before_case(|| Scenario::Foreign(scn.clone())) {
                    continue;
                }
                ctx.stats.evaluations += 1;
                ctx.stats.reach("foreign-ring-of-tiny-area");
                execute(&scn, ctx);
                ctl.after_case(ctx, || Scenario::Foreign(scn.clone()));
            }
        }
    }
    for variant in 0..8u32 {
        for shape_mode in 0..4 {
            let mut recs = Vec::new();
            for i in 0..3 {
                let mut g = if ty == 0 { Geom::null() } else { gen_foreign_geom(&mut r, ty, F_SMALLINT | F_DYADIC, F_SMALLINT | F_NODATA | F_NAN) };
                if ty != 0 && !is_point(ty) {
                    match shape_mode {
                        1 => g.parts.clear(),
                        2 => {
                            for p in g.parts.iter_mut() {
                                p.pts.truncate(1);
                            }
                        }
                        3 => {
                            for p in g.parts.iter_mut() {
                                p.pts.clear();
                            }
                        }
                        _ => {}
                    }
                    if is_multipoint(ty) && g.parts.is_empty() {
                        g.parts.push(Part { kind: -1, pts: vec![] });
                    }
                }
                let m_present = if !has_m(ty) || ty == 0 { false } else if ty == 21 { true } else { variant & (1 << i) != 0 };
                recs.push(ForRec { number: i + 1, geom: g, m_present });
            }
            let scn = ForScn { ty, hdr_bbox: [0; 8], recs, order: vec![], filler: vec![], trailing: if variant % 2 == 0 { vec![1, 2, 3, 4, 5, 6, 7] } else { vec![] }, rstack: StackCfg::Direct, rplan: Plan::default() };
            if !ctl.before_case(|| Scenario::Foreign(scn.clone())) {
                continue;
            }
            ctx.stats.evaluations += 1;
            execute(&scn, ctx);
            ctl.after_case(ctx, || Scenario::Foreign(scn.clone()));
        }
    }
}

/// Foreign files around the readers' internal limits: many records, many parts, many points.
pub fn large_unit(unit: u64, ctx: &mut Ctx, ctl: &mut UnitCtl) {
    let mut r = Rng::new(0xF0 + unit);
    let mut scns: Vec<ForScn> = Vec::new();
    let mk = |ty: i32, recs: Vec<ForRec>, order: Vec<usize>, filler: Vec<Vec<u8>>| ForScn { ty, hdr_bbox: [0; 8], recs, order, filler, trailing: vec![], rstack: StackCfg::Direct, rplan: Plan::default() };
    match unit % 3 {
        0 => {
            // many records (points and null records), in index order and reversed
            for n in [1025usize, 4096, 4097, 5000, 8192, 12_288] {
                let recs: Vec<ForRec> = (0..n)
                    .map(|i| {
                        let g = if i % 97 == 13 { Geom::null() } else { Geom { ty: 11, parts: vec![Part { kind: -1, pts: vec![[(i as f64).to_bits(), 2f64.to_bits(), 3f64.to_bits(), 4f64.to_bits()]] }], bbox: None } };
                        let m = g.ty != 0 && i % 2 == 0;
                        ForRec { number: i as i32 + 1, geom: g, m_present: m }
                    })
                    .collect();
                scns.push(mk(11, recs.clone(), vec![], vec![]));
                if n == 4097 {
                    scns.push(mk(11, recs, (0..n).rev().collect(), vec![]));
                }
            }
        }
        1 => {
            // many parts, with empty and one-vertex parts among them
            for (ty, nparts) in [(3, 1025usize), (15, 1500), (31, 2049), (23, 1024)] {
                let mut parts = Vec::new();
                for k in 0..nparts {
                    let npts = [2usize, 0, 1, 3][k % 4];
                    parts.push(Part { kind: if ty == 31 { (k % 6) as i32 } else { -1 }, pts: (0..npts).map(|j| [((k + j) as f64).to_bits(), (j as f64).to_bits(), if has_z(ty) { 1f64.to_bits() } else { 0 }, if has_m(ty) { 2f64.to_bits() } else { 0 }]).collect() });
                }
                let g = Geom { ty, parts, bbox: Some([0; 8]) };
                let small = gen_foreign_geom(&mut r, ty, F_SMALLINT, F_SMALLINT);
                scns.push(mk(ty, vec![ForRec { number: 1, geom: g, m_present: has_m(ty) && nparts % 2 == 1 }, ForRec { number: 2, geom: small, m_present: has_m(ty) }], vec![], vec![]));
            }
        }
        _ => {
            // many points in one part
            for (ty, npts) in [(8, 1025usize), (18, 3000), (5, 1024), (13, 2000), (28, 1500), (31, 1100)] {
                let pts: Vec<V> = (0..npts).map(|j| [(j as f64).to_bits(), ((j * 7 % 13) as f64).to_bits(), if has_z(ty) { 1f64.to_bits() } else { 0 }, if has_m(ty) { (j as f64 + 0.5).to_bits() } else { 0 }]).collect();
                let g = Geom { ty, parts: vec![Part { kind: if ty == 31 { 2 } else { -1 }, pts }], bbox: Some([0; 8]) };
                let small = gen_foreign_geom(&mut r, ty, F_SMALLINT, F_SMALLINT);
                scns.push(mk(ty, vec![ForRec { number: 1, geom: small, m_present: has_m(ty) }, ForRec { number: 2, geom: g, m_present: has_m(ty) && npts % 2 == 0 }], vec![1, 0], vec![vec![], vec![0xAA; 6], vec![]]));
            }
        }
    }
    for scn in scns {
        if !ctl.before_case(|| Scenario::Foreign(scn.clone())) {
            continue;
        }
        ctx.stats.evaluations += 1;
        ctx.stats.reach("large-scenario");
        execute(&scn, ctx);
        ctl.after_case(ctx, || Scenario::Foreign(scn.clone()));
    }
}

// ---------------------------------------------------------------------------------------------
// Sparse sources: a .shp of up to 4 GiB in which only the header and a few records are real
// bytes (everything else is filler), so that records can sit at and beyond the 2 GiB boundary.

#[derive(Clone, Debug, Serialize, Deserialize)]
pub struct SparseScn {
    pub ty: i32,
    /// offset of each record header, in 16-bit words, in index order
    pub offsets: Vec<u32>,
    /// declared file length in words (None = just past the last record)
    #[serde(default)]
    pub declared_words: Option<u32>,
}

pub struct SparseSrc {
    len: u64,
    extents: Vec<(u64, Vec<u8>)>,
    pos: u64,
    pub reads: u64,
}

impl std::io::Read for SparseSrc {
    fn read(&mut self, buf: &mut [u8]) -> std::io::Result<usize> {
        self.reads += 1;
        let n = (buf.len() as u64).min(self.len.saturating_sub(self.pos)) as usize;
        for (i, b) in buf[..n].iter_mut().enumerate() {
            let p = self.pos + i as u64;
            *b = 0xEE;
            for (start, data) in &self.extents {
                if p >= *start && p < *start + data.len() as u64 {
                    *b = data[(p - *start) as usize];
                    break;
                }
            }
        }
        self.pos += n as u64;
        Ok(n)
    }
}

impl std::io::Seek for SparseSrc {
    fn seek(&mut self, to: std::io::SeekFrom) -> std::io::Result<u64> {
        let t: i128 = match to {
            std::io::SeekFrom::Start(n) => n as i128,
            std::io::SeekFrom::End(d) => self.len as i128 + d as i128,
            std::io::SeekFrom::Current(d) => self.pos as i128 + d as i128,
        };
        if t < 0 {
            return Err(std::io::Error::new(std::io::ErrorKind::InvalidInput, "seek before start"));
        }
        self.pos = t as u64;
        Ok(self.pos)
    }
}

pub fn execute_sparse(s: &SparseScn, ctx: &mut Ctx) {
    if !TYPES.contains(&s.ty) || s.offsets.is_empty() || s.offsets.len() > 16 || s.offsets.iter().any(|o| *o < 50 || *o > i32::MAX as u32 - 200) {
        ctx.fail("HARNESS", "invalid-scenario", "sparse", "bad sparse layout".to_string());
        return;
    }
    // small distinct records; they must not overlap
    let geoms: Vec<Geom> = (0..s.offsets.len())
        .map(|i| {
            let sp = grid_spec(s.ty, 1, if is_point(s.ty) { 1 } else { 2 + i % 3 }, 10 * i + 1);
            let mut g = Geom { ty: sp.ty, parts: sp.parts.clone(), bbox: if is_point(s.ty) { None } else { Some([0; 8]) } };
            if is_multipoint(s.ty) {
                g.parts = vec![Part { kind: -1, pts: sp.parts.iter().flat_map(|p| p.pts.clone()).collect() }];
            }
            g
        })
        .collect();
    let mut extents: Vec<(u64, Vec<u8>)> = Vec::new();
    let mut shx_entries: Vec<(i32, i32)> = Vec::new();
    let mut end_max = 100u64;
    for (i, g) in geoms.iter().enumerate() {
        let content = enc_content(g, has_m(g.ty));
        let mut rec = Vec::new();
        rec.extend_from_slice(&(i as i32 + 1).to_be_bytes());
        rec.extend_from_slice(&((content.len() / 2) as i32).to_be_bytes());
        rec.extend_from_slice(&content);
        let start = s.offsets[i] as u64 * 2;
        for (st, d) in &extents {
            if start < st + d.len() as u64 && *st < start + rec.len() as u64 {
                ctx.fail("HARNESS", "invalid-scenario", "sparse", "records overlap".to_string());
                return;
            }
        }
        end_max = end_max.max(start + rec.len() as u64);
        shx_entries.push((s.offsets[i] as i32, (content.len() / 2) as i32));
        extents.push((start, rec));
    }
    let words = s.declared_words.map(|w| w as u64).unwrap_or(end_max / 2).min(i32::MAX as u64);
    if words * 2 < end_max {
        ctx.fail("HARNESS", "invalid-scenario", "sparse", "declared length does not cover the records".to_string());
        return;
    }
    extents.insert(0, (0, enc_header(s.ty, words as i32, &[0; 8])));
    let mut shx = enc_header(s.ty, (50 + 4 * geoms.len()) as i32, &[0; 8]);
    for (o, l) in &shx_entries {
        shx.extend_from_slice(&o.to_be_bytes());
        shx.extend_from_slice(&l.to_be_bytes());
    }
    let expected: Vec<Geom> = geoms.iter().map(|g| expected_of(&ForRec { number: 0, geom: g.clone(), m_present: has_m(g.ty) })).collect();
    let src = SparseSrc { len: words * 2, extents, pos: 0, reads: 0 };
    let what = format!("sparse {} file of {} bytes, records at word offsets {:?}", type_name(s.ty), words * 2, s.offsets);
    let r = guarded(|| -> Result<(usize, Vec<Item>, Vec<Option<Item>>), shapefile::Error> {
        let mut rd = shapefile::ShapeReader::with_shx(src, std::io::Cursor::new(shx.clone()))?;
        let cnt = rd.shape_count()?;
        let (items, _) = drain(rd.iter_shapes(), geoms.len() + 8);
        let mut nth = Vec::new();
        for i in 0..geoms.len() {
            nth.push(rd.read_nth_shape(i).map(|x| x.map(|s| capture(&s)).map_err(|e| classify(&e))));
        }
        Ok((cnt, items, nth))
    });
    match r {
        Err(p) => ctx.fail("C14", "panic", p.site(), format!("{}: {}", what, p.text())),
        Ok(Err(e)) => ctx.fail("C14", "open", "sparse", format!("{}: {:?}", what, classify(&e))),
        Ok(Ok((cnt, items, nth))) => {
            if cnt != geoms.len() {
                ctx.fail("C14", "shape-count", "sparse", format!("{}: shape_count() = {}", what, cnt));
            }
            let ok_items = items.len() == expected.len() && items.iter().zip(expected.iter()).all(|(it, ex)| matches!(it, Ok(g) if diff_foreign(ex, has_m(ex.ty), g).is_none()));
            if !ok_items {
                ctx.fail("C14", "same-geometry", "iter_shapes:sparse", format!("{}: iteration yielded {:?}", what, items.iter().map(item_short).collect::<Vec<_>>()));
            }
            for (i, x) in nth.iter().enumerate() {
                if !matches!(x, Some(Ok(g)) if diff_foreign(&expected[i], has_m(expected[i].ty), g).is_none()) {
                    ctx.fail("C14", "iteration-vs-random-access", "sparse", format!("{}: read_nth_shape({}) = {:?}", what, i, x.as_ref().map(item_short)));
                    break;
                }
            }
        }
    }
    ctx.stats.reach("sparse-file-beyond-2GiB");
    ctx.stats.distinct.insert(crate::prng::fnv_str(&format!("sparse|{}|{:?}", s.ty, s.offsets)));
}

/// Records at and beyond the 2 GiB boundary, in non-physical index order.
pub fn sparse_unit(unit: u64, ctx: &mut Ctx, ctl: &mut UnitCtl) {
    let ty = TYPES[(unit % 13) as usize];
    let b = 1u32 << 30;
    for offsets in [
        vec![b, 50, b + 400, b - 400, i32::MAX as u32 - 300],
        vec![b - 300, b + 200],
        vec![50, 500, b + 1000],
        vec![i32::MAX as u32 - 400, b, 60],
        vec![(1 << 29) + 10, (1 << 29) - 400, 3 << 29],
    ] {
        let scn = SparseScn { ty, offsets, declared_words: None };
        if !ctl.before_case(|| Scenario::Sparse(scn.clone())) {
            continue;
        }
        ctx.stats.evaluations += 1;
        execute_sparse(&scn, ctx);
        ctl.after_case(ctx, || Scenario::Sparse(scn.clone()));
    }
}
