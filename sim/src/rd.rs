//! Reading routes over the real `ShapeReader<Stack>`, with panic capture and item caps.

use crate::core::*;
use crate::geom::*;
use crate::on_type;
use crate::world::*;
use shapefile::{Shape, ShapeReader};

pub type Rdr = ShapeReader<Stack>;

pub enum Open {
    Ok(Rdr),
    Err(RErr),
    Panic(PanicInfo),
}


pub fn open(world: &WorldRef, with_shx: bool, cfg: StackCfg) -> Open {
    let w = world.clone();
    let r = guarded(move || {
        let shp = Stack::reader(&w, SHP, cfg);
        if with_shx {
            ShapeReader::with_shx(shp, Stack::reader(&w, SHX, cfg))
        } else {
            ShapeReader::new(shp)
        }
    });
    match r {
        Ok(Ok(r)) => Open::Ok(r),
        Ok(Err(e)) => Open::Err(classify(&e)),
        Err(p) => Open::Panic(p),
    }
}

/// generic sequential iteration, drained
pub fn iter_generic(r: &mut Rdr, cap: usize) -> Result<(Vec<Item>, bool), PanicInfo> {
    guarded(|| drain(r.iter_shapes(), cap))
}

/// typed sequential iteration, drained
pub fn iter_typed(r: &mut Rdr, ty: i32, cap: usize) -> Result<(Vec<Item>, bool), PanicInfo> {
    guarded(|| on_type!(ty, S => drain(r.iter_shapes_as::<S>(), cap), (vec![], false)))
}

pub fn nth_generic(r: &mut Rdr, i: usize) -> Result<Option<Item>, PanicInfo> {
    guarded(|| r.read_nth_shape(i).map(|x| x.map(|s| capture(&s)).map_err(|e| classify(&e))))
}

pub fn nth_typed(r: &mut Rdr, ty: i32, i: usize) -> Result<Option<Item>, PanicInfo> {
    guarded(|| {
        on_type!(ty, S => r.read_nth_shape_as::<S>(i).map(|x| x.map(|s| s.to_geom()).map_err(|e| classify(&e))), None)
    })
}

/// consuming read()
pub fn read_generic(r: Rdr) -> Result<Result<Vec<Geom>, RErr>, PanicInfo> {
    guarded(move || r.read().map(|v| v.iter().map(capture).collect()).map_err(|e| classify(&e)))
}

/// consuming read_as::<S>()
pub fn read_typed(r: Rdr, ty: i32) -> Result<Result<Vec<Geom>, RErr>, PanicInfo> {
    guarded(move || {
        on_type!(ty, S => r.read_as::<S>().map(|v| v.into_iter().map(|s| s.to_geom()).collect()).map_err(|e| classify(&e)),
                 Err(RErr::InvalidShapeType(ty)))
    })
}

/// convert_shapes_to_vec_of::<S>(shapes)
pub fn convert_typed(shapes: Vec<Shape>, ty: i32) -> Result<Result<Vec<Geom>, RErr>, PanicInfo> {
    guarded(move || {
        on_type!(ty, S => shapefile::convert_shapes_to_vec_of::<S>(shapes).map(|v| v.into_iter().map(|s| s.to_geom()).collect()).map_err(|e| classify(&e)),
                 Err(RErr::InvalidShapeType(ty)))
    })
}

pub fn read_generic_shapes(r: Rdr) -> Result<Result<Vec<Shape>, RErr>, PanicInfo> {
    guarded(move || r.read().map_err(|e| classify(&e)))
}

/// Compare a drained item list with the expected geometries: all Ok, same count, same order.
pub fn expect_all(ctx: &mut Ctx, prop: &str, route: &str, items: &[Item], capped: bool, expected: &[Geom], cmp_kind_polygon: &dyn Fn(usize, usize) -> bool) {
    if capped {
        ctx.fail(prop, "terminates", route, format!("{}: iterator exceeded the item cap", route));
        return;
    }
    if items.len() != expected.len() {
        ctx.fail(
            prop,
            "count",
            route,
            format!("{}: {} items for {} shapes: {:?}", route, items.len(), expected.len(), items.iter().map(item_short).collect::<Vec<_>>()),
        );
        return;
    }
    for (i, (it, ex)) in items.iter().zip(expected.iter()).enumerate() {
        match it {
            Err(e) => {
                ctx.fail(prop, "no-error", route, format!("{}: item {} is Err({:?})", route, i, e));
                return;
            }
            Ok(g) => {
                if let Some(d) = diff_read(ex, g, i, cmp_kind_polygon) {
                    ctx.fail(prop, "same-shape", route, format!("{}: item {}: {}", route, i, d));
                    return;
                }
            }
        }
    }
}

/// `expected` already normalised for reading. Ring roles of polygons are compared only where
/// `cmp_kind_polygon(shape index, ring index)` says the exact area is non-zero.
pub fn diff_read(ex: &Geom, got: &Geom, shape_i: usize, cmp_kind_polygon: &dyn Fn(usize, usize) -> bool) -> Option<String> {
    if let Some(d) = diff(ex, got, ex.ty == 31, true) {
        return Some(d);
    }
    if is_polygon(ex.ty) {
        for (ri, (a, b)) in ex.parts.iter().zip(got.parts.iter()).enumerate() {
            if a.kind != b.kind && a.kind >= 0 && cmp_kind_polygon(shape_i, ri) {
                return Some(format!("ring {} role {} vs {}", ri, a.kind, b.kind));
            }
        }
    }
    None
}

/// Exact signed area (x8 scaled, doubled) of a ring when all its coordinates are bounded dyadic
/// rationals (k/8, |k| < 2^21); None otherwise.
pub fn exact_area(pts: &[V]) -> Option<i128> {
    let mut ks: Vec<(i128, i128)> = Vec::with_capacity(pts.len());
    for p in pts {
        let x = f64::from_bits(p[0]) * 8.0;
        let y = f64::from_bits(p[1]) * 8.0;
        if !(x.is_finite() && y.is_finite()) || x.fract() != 0.0 || y.fract() != 0.0 || x.abs() >= (1u64 << 21) as f64 || y.abs() >= (1u64 << 21) as f64 {
            return None;
        }
        ks.push((x as i128, y as i128));
    }
    let mut s: i128 = 0;
    for w in ks.windows(2) {
        s += (w[1].0 - w[0].0) * (w[1].1 + w[0].1);
    }
    Some(s)
}
