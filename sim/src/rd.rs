//! Reading routes over the real `ShapeReader<Stack>`, with panic capture and item caps.

use crate::core::*;
use crate::geom::*;
use crate::on_type;
use crate::world::*;
use shapefile::{Shape, ShapeReader};

pub type Rdr = ShapeReader<Stack>;

pub enum Open {
    Ok(Rdr),
    Err(RErr),
    Panic(PanicInfo),
}


pub fn open(world: &WorldRef, with_shx: bool, cfg: StackCfg) -> Open {
    let w = world.clone();
    let r = guarded(move || {
        let shp = Stack::reader(&w, SHP, cfg);
        if with_shx {
            ShapeReader::with_shx(shp, Stack::reader(&w, SHX, cfg))
        } else {
            ShapeReader::new(shp)
        }
    });
    match r {
        Ok(Ok(r)) => Open::Ok(r),
        Ok(Err(e)) => Open::Err(classify(&e)),
        Err(p) => Open::Panic(p),
    }
}

/// generic sequential iteration, drained
pub fn iter_generic(r: &mut Rdr, cap: usize) -> Result<(Vec<Item>, bool), PanicInfo> {
    guarded(|| drain(r.iter_shapes(), cap))
}

/// typed sequential iteration, drained
pub fn iter_typed(r: &mut Rdr, ty: i32, cap: usize) -> Result<(Vec<Item>, bool), PanicInfo> {
    guarded(|| on_type!(ty, S => drain(r.iter_shapes_as::<S>(), cap), (vec![], false)))
}

pub fn nth_generic(r: &mut Rdr, i: usize) -> Result<Option<Item>, PanicInfo> {
    guarded(|| r.read_nth_shape(i).map(|x| x.map(|s| capture(&s)).map_err(|e| classify(&e))))
}

pub fn nth_typed(r: &mut Rdr, ty: i32, i: usize) -> Result<Option<Item>, PanicInfo> {
    guarded(|| {
        on_type!(ty, S => r.read_nth_shape_as::<S>(i).map(|x| x.map(|s| s.to_geom()).map_err(|e| classify(&e))), None)
    })
}

/// consuming read()
pub fn read_generic(r: Rdr) -> Result<Result<Vec<Geom>, RErr>, PanicInfo> {
    guarded(move || r.read().map(|v| v.iter().map(capture).collect()).map_err(|e| classify(&e)))
}

/// consuming read_as::<S>()
pub fn read_typed(r: Rdr, ty: i32) -> Result<Result<Vec<Geom>, RErr>, PanicInfo> {
    guarded(move || {
        on_type!(ty, S => r.read_as::<S>().map(|v| v.into_iter().map(|s| s.to_geom()).collect()).map_err(|e| classify(&e)),
                 Err(RErr::InvalidShapeType(ty)))
    })
}

/// convert_shapes_to_vec_of::<S>(shapes)
pub fn convert_typed(shapes: Vec<Shape>, ty: i32) -> Result<Result<Vec<Geom>, RErr>, PanicInfo> {
    guarded(move || {
        on_type!(ty, S => shapefile::convert_shapes_to_vec_of::<S>(shapes).map(|v| v.into_iter().map(|s| s.to_geom()).collect()).map_err(|e| classify(&e)),
                 Err(RErr::InvalidShapeType(ty)))
    })
}

pub fn read_generic_shapes(r: Rdr) -> Result<Result<Vec<Shape>, RErr>, PanicInfo> {
    guarded(move || r.read().map_err(|e| classify(&e)))
}

/// Compare a drained item list with the expected geometries: all Ok, same count, same order.
pub fn expect_all(ctx: &mut Ctx, prop: &str, route: &str, items: &[Item], capped: bool, expected: &[Geom], cmp_kind_polygon: &dyn Fn(usize, usize) -> bool) {
    if capped {
        ctx.fail(prop, "terminates", route, format!("{}: iterator exceeded the item cap", route));
        return;
    }
    if items.len() != expected.len() {
        ctx.fail(
            prop,
            "count",
            route,
            format!("{}: {} items for {} shapes: {:?}", route, items.len(), expected.len(), items.iter().map(item_short).collect::<Vec<_>>()),
        );
        return;
    }
    for (i, (it, ex)) in items.iter().zip(expected.iter()).enumerate() {
        match it {
            Err(e) => {
                ctx.fail(prop, "no-error", route, format!("{}: item {} is Err({:?})", route, i, e));
                return;
            }
            Ok(g) => {
                if let Some(d) = diff_read(ex, g, i, cmp_kind_polygon) {
                    let (clause, site) = shape_diff_class(&d, route);
                    ctx.fail(prop, clause, site, format!("{}: item {}: {}", route, i, d));
                    return;
                }
            }
        }
    }
}

/// Prefix of a ring-role difference on a ring whose double-precision area is lost to rounding.
pub const ROUNDING_MARK: &str = "[float area rounds away] ";

/// (clause, site) under which a shape difference is reported: ring roles lost to rounding of the
/// floating-point area are one class whatever the route.
pub fn shape_diff_class<'a>(d: &str, route: &'a str) -> (&'static str, &'a str) {
    if d.starts_with(ROUNDING_MARK) {
        ("ring-role-rounding", "float-area")
    } else {
        ("same-shape", route)
    }
}

/// `expected` already normalised for reading. Ring roles of polygons are compared only where
/// `cmp_kind_polygon(shape index, ring index)` says the exact area is non-zero.
pub fn diff_read(ex: &Geom, got: &Geom, shape_i: usize, cmp_kind_polygon: &dyn Fn(usize, usize) -> bool) -> Option<String> {
    if let Some(d) = diff(ex, got, ex.ty == 31, true) {
        return Some(d);
    }
    if is_polygon(ex.ty) {
        for (ri, (a, b)) in ex.parts.iter().zip(got.parts.iter()).enumerate() {
            if a.kind != b.kind && a.kind >= 0 && cmp_kind_polygon(shape_i, ri) {
                // a class of its own: the plain double-precision shoelace sum of this ring rounds to
                // zero or to the other sign although the exact area is not zero
                let naive: f64 = a.pts.windows(2).map(|w| (f64::from_bits(w[1][0]) - f64::from_bits(w[0][0])) * (f64::from_bits(w[1][1]) + f64::from_bits(w[0][1]))).sum();
                let exact = exact_area(&a.pts).unwrap_or(0);
                // (the library halves the sum before it looks at the sign: a sum of one subnormal unit vanishes there)
                let lost = naive / 2.0 == 0.0 || naive.is_nan() || (naive < 0.0) != (exact < 0);
                return Some(format!("{}ring {} role {} vs {}", if lost { ROUNDING_MARK } else { "" }, ri, a.kind, b.kind));
            }
        }
    }
    None
}

/// Exact signed area (x8 scaled, doubled) of a ring when all its coordinates are bounded dyadic
/// rationals (k/8, |k| < 2^21); None otherwise.
/// Twice the signed area of the ring in units of (2^ex * 2^ey), exactly, as an integer - or None
/// when the coordinates do not fit: per axis the values are written as integers times a common
/// power of two (the smallest unit any of them needs); the integers must stay below 2^51.
pub fn exact_area(pts: &[V]) -> Option<i128> {
    // (integer mantissa, exponent of its unit) of a finite double
    fn parts(bits: u64) -> Option<(i128, i32)> {
        let v = f64::from_bits(bits);
        if !v.is_finite() {
            return None;
        }
        if v == 0.0 {
            return Some((0, i32::MAX));
        }
        let e = ((bits >> 52) & 0x7ff) as i32;
        let frac = (bits & ((1u64 << 52) - 1)) as i128;
        let (mut m, mut ex) = if e == 0 { (frac, -1074) } else { (frac | (1i128 << 52), e - 1075) };
        while m & 1 == 0 {
            m >>= 1;
            ex += 1;
        }
        Some((if v < 0.0 { -m } else { m }, ex))
    }
    let axis = |k: usize| -> Option<Vec<i128>> {
        let ps: Vec<(i128, i32)> = pts.iter().map(|p| parts(p[k])).collect::<Option<Vec<_>>>()?;
        let unit = ps.iter().filter(|p| p.0 != 0).map(|p| p.1).min().unwrap_or(0);
        let mut out = Vec::with_capacity(ps.len());
        for (m, ex) in ps {
            if m == 0 {
                out.push(0);
                continue;
            }
            let sh = ex - unit;
            if sh > 60 {
                return None;
            }
            let v = m.checked_shl(sh as u32)?;
            if v.abs() >= (1i128 << 51) {
                return None;
            }
            out.push(v);
        }
        Some(out)
    };
    let xs = axis(0)?;
    let ys = axis(1)?;
    let mut s: i128 = 0;
    for i in 1..xs.len() {
        s += (xs[i] - xs[i - 1]) * (ys[i] + ys[i - 1]);
    }
    Some(s)
}
