//! Orchestrator: worker processes, watchdog, known findings, corpus, minimisation, replay files,
//! evidence. Which worker runs which unit has no influence on the outcome of a unit.

use crate::checks;
use crate::core::*;
use crate::scn::*;
use serde::{Deserialize, Serialize};
use std::collections::{BTreeMap, HashSet};
use std::io::{BufRead, BufReader, Write};
use std::path::{Path, PathBuf};
use std::process::{Command, Stdio};
use std::sync::mpsc;
use std::time::{Duration, Instant};

pub fn verif_dir() -> PathBuf {
    if let Ok(d) = std::env::var("VERIF_DIR") {
        return PathBuf::from(d);
    }
    // <verif>/sim/target/release/shpsim
    let exe = std::env::current_exe().unwrap_or_default();
    exe.ancestors().nth(4).map(|p| p.to_path_buf()).unwrap_or_else(|| PathBuf::from("/verif"))
}

#[derive(Clone, Debug, Serialize, Deserialize)]
pub struct KnownFinding {
    pub status: String,
    pub property: String,
    #[serde(default)]
    pub fingerprint: String,
    pub what: String,
    #[serde(default)]
    pub commit: Option<String>,
    #[serde(default)]
    pub scenario: Option<Scenario>,
}

pub fn load_known(prop: &str) -> Vec<KnownFinding> {
    let p = verif_dir().join("known_findings.jsonl");
    let Ok(text) = std::fs::read_to_string(&p) else { return vec![] };
    let mut v = Vec::new();
    for line in text.lines() {
        let line = line.trim();
        if line.is_empty() || line.starts_with('#') {
            continue;
        }
        match serde_json::from_str::<KnownFinding>(line) {
            Ok(k) => {
                if k.property == prop {
                    v.push(k)
                }
            }
            Err(e) => {
                eprintln!("harness error: known_findings.jsonl: {}", e);
                std::process::exit(2);
            }
        }
    }
    v
}

pub fn load_corpus(prop: &str) -> Vec<(String, Scenario)> {
    let dir = verif_dir().join("corpus").join(prop);
    let mut v = Vec::new();
    let Ok(rd) = std::fs::read_dir(&dir) else { return v };
    let mut names: Vec<PathBuf> = rd.filter_map(|e| e.ok().map(|e| e.path())).filter(|p| p.extension().map(|e| e == "json").unwrap_or(false)).collect();
    names.sort();
    for p in names {
        let text = std::fs::read_to_string(&p).unwrap_or_default();
        match serde_json::from_str::<ReplayFile>(&text) {
            Ok(r) => v.push((p.file_name().unwrap().to_string_lossy().to_string(), r.scenario)),
            Err(e) => {
                eprintln!("harness error: corpus file {}: {}", p.display(), e);
                std::process::exit(2);
            }
        }
    }
    v
}

#[derive(Clone, Debug, Serialize, Deserialize)]
pub struct ReplayFile {
    pub property: String,
    pub fingerprint: String,
    pub clause: String,
    pub detail: String,
    pub seed: u64,
    pub tier: String,
    pub phase: String,
    pub unit: u64,
    pub case: u64,
    pub scenario: Scenario,
    #[serde(default)]
    pub unminimised: Option<Scenario>,
    #[serde(default)]
    pub minimise_executions: usize,
}

#[derive(Default, Serialize, Deserialize)]
pub struct Report {
    pub evaluations: u64,
    pub steps: u64,
    pub faults: BTreeMap<String, u64>,
    pub reach: BTreeMap<String, u64>,
    pub distinct: Vec<u64>,
    pub samples: Vec<serde_json::Value>,
    pub found: Vec<Found>,
    #[serde(default)]
    pub digest: u64,
}

fn phase_list(prop: &str, tier: Tier) -> Vec<(String, u64)> {
    let mut v = vec![];
    let known = load_known(prop).into_iter().filter(|k| k.status == "open" && k.scenario.is_some()).count() as u64;
    v.push(("known".to_string(), known));
    v.push(("corpus".to_string(), load_corpus(prop).len() as u64));
    for p in checks::phases(prop, tier) {
        v.push((p.name.to_string(), p.units));
    }
    v
}

fn run_any_unit(prop: &str, phase: &str, unit: u64, seed: u64, tier: Tier, ctx: &mut Ctx, ctl: &mut UnitCtl) {
    match phase {
        "known" => {
            let k: Vec<KnownFinding> = load_known(prop).into_iter().filter(|k| k.status == "open" && k.scenario.is_some()).collect();
            if let Some(k) = k.get(unit as usize) {
                let scn = k.scenario.clone().unwrap();
                if ctl.before_case(|| scn.clone()) {
                    ctx.stats.evaluations += 1;
                    execute(&scn, ctx);
                    ctl.after_case(ctx, || scn.clone());
                }
            }
        }
        "corpus" => {
            let c = load_corpus(prop);
            if let Some((_, scn)) = c.get(unit as usize) {
                if ctl.before_case(|| scn.clone()) {
                    ctx.stats.evaluations += 1;
                    execute(scn, ctx);
                    ctl.after_case(ctx, || scn.clone());
                }
            }
        }
        _ => checks::run_unit(prop, phase, unit, seed, tier, ctx, ctl),
    }
}

/// Worker: units with index = w mod n_workers of every phase.
pub fn cmd_worker(prop: &str, tier: Tier, seed: u64, w: u64, n: u64, resume_after: Option<(String, u64)>) -> i32 {
    install_panic_hook();
    let mut ctx = Ctx::new();
    let mut found: Vec<Found> = Vec::new();
    let mut n_found = 0usize;
    let out = std::io::stdout();
    let mut skipping = resume_after.is_some();
    let mut unit_digest: u64 = 0;
    for (phase, units) in phase_list(prop, tier) {
        let mut u = w;
        while u < units {
            if skipping {
                // resume after the unit that killed the previous incarnation of this worker
                if let Some((ph, uu)) = &resume_after {
                    if *ph == phase && *uu == u {
                        skipping = false;
                    }
                }
                u += n;
                continue;
            }
            {
                let mut o = out.lock();
                let _ = writeln!(o, "U {} {}", phase, u);
                let _ = o.flush();
            }
            let mut ctl = UnitCtl::new(prop, &phase, u);
            let (ev0, st0) = (ctx.stats.evaluations, ctx.stats.steps);
            let r = guarded(|| run_any_unit(prop, &phase, u, seed, tier, &mut ctx, &mut ctl));
            unit_digest = unit_digest.wrapping_add(crate::prng::fnv_str(&format!(
                "{}/{}/{}/{}/{:?}",
                phase,
                u,
                ctx.stats.evaluations - ev0,
                ctx.stats.steps - st0,
                ctl.found.iter().map(|f| f.fails.iter().map(|x| x.fingerprint()).collect::<Vec<_>>()).collect::<Vec<_>>()
            )));
            if let Err(p) = r {
                // a panic that escaped the family's own guards is a harness error
                ctx.fails.clear();
                found.push(Found {
                    phase: phase.clone(),
                    unit: u,
                    case: ctl.case_no.saturating_sub(1),
                    scenario: ctl.materialised.clone().unwrap_or_else(dummy_scenario),
                    fails: vec![Fail { prop: "HARNESS".into(), clause: "escaped-panic".into(), site: p.site(), detail: p.text() }],
                });
            }
            ctx.fails.clear();
            found.extend(ctl.found.drain(..));
            // found items go out at once, so that they survive a later death of this process
            for f in found.drain(..) {
                if n_found < 40 {
                    n_found += 1;
                    let mut o = out.lock();
                    let _ = writeln!(o, "F {}", serde_json::to_string(&f).unwrap());
                    let _ = o.flush();
                }
            }
            u += n;
        }
    }
    let rep = Report {
        evaluations: ctx.stats.evaluations,
        steps: ctx.stats.steps,
        faults: ctx.stats.faults,
        reach: ctx.stats.reach,
        distinct: ctx.stats.distinct.into_iter().collect(),
        samples: ctx.stats.samples,
        found: vec![],
        digest: unit_digest.wrapping_add(ctx.stats.log_digest),
    };
    let mut o = out.lock();
    let _ = writeln!(o, "R {}", serde_json::to_string(&rep).unwrap());
    let _ = o.flush();
    0
}

fn dummy_scenario() -> Scenario {
    Scenario::Rt(crate::fam_rt::RtScn {
        w: crate::wrun::WProg { shapes: vec![], others: vec![], calls: vec![], ending: crate::wrun::Ending::Drop, with_shx: false, stack: crate::world::StackCfg::Direct },
        wplan: Default::default(),
        rstack: crate::world::StackCfg::Direct,
        rplan: Default::default(),
        path: false,
    })
}

/// Pinpoint: run one unit printing "K <case>" before every case.
pub fn cmd_pinpoint(prop: &str, tier: Tier, seed: u64, phase: &str, unit: u64) -> i32 {
    install_panic_hook();
    let mut ctx = Ctx::new();
    let mut ctl = UnitCtl::new(prop, phase, unit);
    ctl.report_cases = true;
    run_any_unit(prop, phase, unit, seed, tier, &mut ctx, &mut ctl);
    println!("DONE");
    0
}

/// Wait for a child and remove the scratch directory it may have left behind (a worker that was
/// killed, or died, cannot clean up after itself; `sh -c exec` keeps the pid).
fn reap(c: &mut std::process::Child) {
    let id = c.id();
    let _ = c.wait();
    let _ = std::fs::remove_dir_all(std::env::temp_dir().join(format!("shpsim-{}", id)));
}

fn self_exe() -> PathBuf {
    std::env::current_exe().expect("current_exe")
}

/// Spawn ourselves under an address-space limit so that a giant allocation aborts the child
/// instead of hurting the machine.
fn spawn_self(args: &[String]) -> std::io::Result<std::process::Child> {
    let mut script = String::from("ulimit -v 12000000 2>/dev/null; exec \"$0\" \"$@\"");
    if std::env::var("SHPSIM_NO_ULIMIT").is_ok() {
        script = String::from("exec \"$0\" \"$@\"");
    }
    let stderr = if std::env::var("SHPSIM_DEBUG").is_ok() { Stdio::inherit() } else { Stdio::null() };
    Command::new("sh").arg("-c").arg(script).arg(self_exe()).args(args).env("RUST_BACKTRACE", "0").stdin(Stdio::null()).stdout(Stdio::piped()).stderr(stderr).spawn()
}

enum Msg {
    Unit(usize, String, u64),
    Report(usize, Box<Report>),
    Found(Box<Found>),
    Beat(usize),
    Closed(usize),
}

struct Death {
    phase: String,
    unit: u64,
    how: &'static str,
}

/// Run one process to completion, collecting "K" lines. Returns (culprit case, finished cleanly, how):
/// the last case announced if the process died or stalled; if it finished, the case that took
/// longest, provided it took more than `slow` (a worker stalled on this unit before).
fn run_pinpoint(prop: &str, tier: Tier, seed: u64, phase: &str, unit: u64, timeout: Duration, slow: Duration) -> (Option<u64>, bool, &'static str) {
    let args: Vec<String> = vec!["pinpoint".into(), prop.into(), tier.name().into(), seed.to_string(), phase.into(), unit.to_string()];
    let Ok(mut child) = spawn_self(&args) else { return (None, false, "spawn") };
    let stdout = child.stdout.take().unwrap();
    let (tx, rx) = mpsc::channel::<Option<String>>();
    std::thread::spawn(move || {
        for line in BufReader::new(stdout).lines().map_while(Result::ok) {
            if tx.send(Some(line)).is_err() {
                return;
            }
        }
        let _ = tx.send(None);
    });
    let mut last: Option<u64> = None;
    let mut last_at = Instant::now();
    let mut slowest: Option<(u64, Duration)> = None;
    let mut done = false;
    let mut how = "abort";
    let mut note = |last: Option<u64>, last_at: Instant, slowest: &mut Option<(u64, Duration)>| {
        if let Some(c) = last {
            let d = last_at.elapsed();
            if slowest.map(|(_, s)| d > s).unwrap_or(true) {
                *slowest = Some((c, d));
            }
        }
    };
    loop {
        match rx.recv_timeout(timeout) {
            Ok(Some(l)) => {
                if let Some(k) = l.strip_prefix("K ") {
                    note(last, last_at, &mut slowest);
                    last = k.trim().parse().ok();
                    last_at = Instant::now();
                } else if l == "DONE" {
                    note(last, last_at, &mut slowest);
                    done = true;
                }
            }
            Ok(None) => break,
            Err(_) => {
                how = "hang";
                let _ = child.kill();
                break;
            }
        }
    }
    reap(&mut child);
    if done {
        if let Some((c, d)) = slowest {
            if d > slow {
                return (Some(c), false, "hang");
            }
        }
        return (last, true, how);
    }
    (last, done, how)
}

pub struct CheckOutcome {
    pub exit: i32,
}

pub fn cmd_check(prop: &str, tier: Tier, seed: u64, workers: u64) -> i32 {
    install_panic_hook();
    let t0 = Instant::now();
    if !checks::CLAIMED.contains(&prop) {
        eprintln!("harness error: property {} is not claimed by this framework", prop);
        return 2;
    }
    println!("shpsim check property={} tier={} VERIF_SEED={} workers={}", prop, tier.name(), seed, workers);
    let known = load_known(prop);
    let plist = phase_list(prop, tier);
    let total_units: u64 = plist.iter().map(|p| p.1).sum();
    println!("phases: {}", plist.iter().map(|(n, u)| format!("{}={}", n, u)).collect::<Vec<_>>().join(" "));

    let (tx, rx) = mpsc::channel::<Msg>();
    let spawn_worker = |w: u64, resume: Option<&(String, u64)>, tx: mpsc::Sender<Msg>| -> Option<std::process::Child> {
        let mut args: Vec<String> = vec!["worker".into(), prop.into(), tier.name().into(), seed.to_string(), w.to_string(), workers.to_string()];
        if let Some((ph, u)) = resume {
            args.push(ph.clone());
            args.push(u.to_string());
        }
        let mut child = match spawn_self(&args) {
            Ok(c) => c,
            Err(e) => {
                eprintln!("harness error: cannot spawn worker: {}", e);
                return None;
            }
        };
        let stdout = child.stdout.take().unwrap();
        let wi = w as usize;
        std::thread::spawn(move || {
            for line in BufReader::new(stdout).lines().map_while(Result::ok) {
                if let Some(rest) = line.strip_prefix("U ") {
                    let mut it = rest.split(' ');
                    let ph = it.next().unwrap_or("").to_string();
                    let u = it.next().and_then(|x| x.parse().ok()).unwrap_or(0);
                    let _ = tx.send(Msg::Unit(wi, ph, u));
                } else if line == "H" {
                    let _ = tx.send(Msg::Beat(wi));
                } else if let Some(rest) = line.strip_prefix("F ") {
                    match serde_json::from_str::<Found>(rest) {
                        Ok(f) => {
                            let _ = tx.send(Msg::Found(Box::new(f)));
                        }
                        Err(e) => eprintln!("harness error: bad worker finding: {}", e),
                    }
                } else if let Some(rest) = line.strip_prefix("R ") {
                    match serde_json::from_str::<Report>(rest) {
                        Ok(r) => {
                            let _ = tx.send(Msg::Report(wi, Box::new(r)));
                        }
                        Err(e) => eprintln!("harness error: bad worker report: {}", e),
                    }
                }
            }
            let _ = tx.send(Msg::Closed(wi));
        });
        Some(child)
    };
    let n = workers as usize;
    let mut children: Vec<Option<std::process::Child>> = Vec::new();
    for w in 0..workers {
        match spawn_worker(w, None, tx.clone()) {
            Some(c) => children.push(Some(c)),
            None => return 2,
        }
    }

    let mut last_unit: Vec<Option<(String, u64)>> = vec![None; n];
    let mut last_progress: Vec<Instant> = vec![Instant::now(); n];
    let mut reports: Vec<Vec<Report>> = (0..n).map(|_| Vec::new()).collect();
    let mut finished = vec![false; n];
    let mut deaths: Vec<Death> = Vec::new();
    let mut found: Vec<Found> = Vec::new();
    let mut respawns = 0;
    let stall = Duration::from_secs(std::env::var("SHPSIM_STALL_S").ok().and_then(|s| s.parse().ok()).unwrap_or(90));
    while finished.iter().any(|c| !c) {
        match rx.recv_timeout(Duration::from_secs(1)) {
            Ok(Msg::Unit(w, ph, u)) => {
                last_unit[w] = Some((ph, u));
                last_progress[w] = Instant::now();
            }
            Ok(Msg::Found(f)) => found.push(*f),
            Ok(Msg::Beat(w)) => last_progress[w] = Instant::now(),
            Ok(Msg::Report(w, r)) => {
                reports[w].push(*r);
                finished[w] = true;
            }
            Ok(Msg::Closed(w)) => {
                if let Some(c) = children[w].as_mut() {
                    reap(c);
                }
                if finished[w] {
                    continue;
                }
                // died without a report: note the unit, respawn to continue after it
                let Some((ph, u)) = last_unit[w].clone() else {
                    eprintln!("harness error: worker {} died before its first unit", w);
                    return 2;
                };
                let how = if last_progress[w].elapsed() > stall { "hang" } else { "abort" };
                deaths.push(Death { phase: ph.clone(), unit: u, how });
                respawns += 1;
                if respawns > 64 {
                    println!("note: more than 64 worker deaths, not continuing worker {}", w);
                    finished[w] = true;
                    continue;
                }
                last_progress[w] = Instant::now();
                match spawn_worker(w as u64, Some(&(ph, u)), tx.clone()) {
                    Some(c) => children[w] = Some(c),
                    None => return 2,
                }
            }
            Err(mpsc::RecvTimeoutError::Timeout) => {
                for w in 0..n {
                    if !finished[w] && last_progress[w].elapsed() > stall {
                        if let Some(c) = children[w].as_mut() {
                            let _ = c.kill();
                        }
                    }
                }
            }
            Err(mpsc::RecvTimeoutError::Disconnected) => break,
        }
    }
    drop(tx);
    for c in children.iter_mut().flatten() {
        reap(c);
    }

    // merge
    let mut stats = Stats::default();
    for r in reports.into_iter().flatten() {
        stats.evaluations += r.evaluations;
        stats.steps += r.steps;
        stats.log_digest = stats.log_digest.wrapping_add(r.digest);
        for (k, v) in r.faults {
            *stats.faults.entry(k).or_insert(0) += v;
        }
        for (k, v) in r.reach {
            *stats.reach.entry(k).or_insert(0) += v;
        }
        stats.distinct.extend(r.distinct);
        if stats.samples.len() < 4 {
            stats.samples.extend(r.samples.into_iter().take(2));
        }
        found.extend(r.found);
    }
    // dead workers: pinpoint the case, materialise its scenario
    if deaths.len() > 3 {
        println!("{} worker deaths; pinpointing the first 3", deaths.len());
    }
    deaths.sort_by_key(|d| (d.phase.clone(), d.unit));
    for d in deaths.iter().take(3) {
        println!("worker died ({}) in phase {} unit {}: pinpointing", d.how, d.phase, d.unit);
        let (last, done, how) = run_pinpoint(prop, tier, seed, &d.phase, d.unit, Duration::from_secs(30), Duration::from_secs(if d.how == "hang" { 4 } else { 3600 }));
        if done {
            eprintln!("harness error: unit {}/{} killed a worker but completes in isolation", d.phase, d.unit);
            return 2;
        }
        let Some(case) = last else {
            eprintln!("harness error: could not pinpoint the dying case");
            return 2;
        };
        let mut ctx = Ctx::new();
        let mut ctl = UnitCtl::new(prop, &d.phase, d.unit);
        ctl.materialise = Some(case);
        run_any_unit(prop, &d.phase, d.unit, seed, tier, &mut ctx, &mut ctl);
        let Some(scn) = ctl.materialised else {
            eprintln!("harness error: could not materialise case {}", case);
            return 2;
        };
        found.push(Found {
            phase: d.phase.clone(),
            unit: d.unit,
            case,
            scenario: scn,
            fails: vec![Fail {
                prop: prop.to_string(),
                clause: how.to_string(),
                site: "process".into(),
                detail: format!("the process executing this case {}", if how == "hang" { "made no progress for 30 s, or took more than 4 s in a unit on which a worker had stalled for minutes" } else { "died on a signal (abort / out of memory)" }),
            }],
        });
    }

    // harness errors first
    for f in &found {
        for x in &f.fails {
            if x.prop == "HARNESS" {
                eprintln!("harness error: {} / {} / {}: {}", x.clause, x.site, f.phase, x.detail);
                let p = verif_dir().join("replays");
                let _ = std::fs::create_dir_all(&p);
                let _ = std::fs::write(p.join("harness-error.json"), serde_json::to_string_pretty(&f.scenario).unwrap());
                return 2;
            }
        }
    }

    // lowest (phase order, unit, case) first, one per fingerprint
    let order: Vec<String> = plist.iter().map(|p| p.0.clone()).collect();
    found.sort_by_key(|f| (order.iter().position(|p| *p == f.phase).unwrap_or(99), f.unit, f.case));
    let open: Vec<&KnownFinding> = known.iter().filter(|k| k.status == "open").collect();
    let mut seen: HashSet<String> = HashSet::new();
    let mut known_hit: BTreeMap<String, String> = BTreeMap::new();
    let mut violations: Vec<(Found, Fail)> = Vec::new();
    for f in &found {
        for x in &f.fails {
            let fp = x.fingerprint();
            if let Some(k) = open.iter().find(|k| k.fingerprint == fp) {
                known_hit.insert(fp.clone(), k.what.clone());
                continue;
            }
            if seen.insert(fp) {
                violations.push((f.clone(), x.clone()));
            }
        }
    }
    for k in &open {
        if known_hit.contains_key(&k.fingerprint) {
            println!("KNOWN-FINDING: property={} {} [{}]", prop, k.what, k.fingerprint);
        } else {
            println!("note: known finding no longer reproduces: {} [{}]", k.what, k.fingerprint);
        }
    }

    let mut n_viol = 0;
    let replays = verif_dir().join("replays");
    for (vi, (f, x)) in violations.iter().take(3).enumerate() {
        let _ = std::fs::create_dir_all(&replays);
        let fp = x.fingerprint();
        let process_class = x.clause == "abort" || x.clause == "hang";
        let (min, execs) = if process_class { (f.scenario.clone(), 0) } else { crate::shrink::minimise(&f.scenario, &fp, 1500, if vi == 0 { 30 } else { 10 }) };
        // detail of the minimised scenario
        let mut detail = x.detail.clone();
        if !process_class {
            let mut c = Ctx::new();
            let _ = guarded(|| execute(&min, &mut c));
            if let Some(y) = c.fails.iter().find(|y| y.fingerprint() == fp) {
                detail = y.detail.clone();
            }
        }
        let rf = ReplayFile {
            property: prop.to_string(),
            fingerprint: fp.clone(),
            clause: x.clause.clone(),
            detail: detail.clone(),
            seed,
            tier: tier.name().to_string(),
            phase: f.phase.clone(),
            unit: f.unit,
            case: f.case,
            scenario: min,
            unminimised: Some(f.scenario.clone()),
            minimise_executions: execs,
        };
        let name = format!("{}-{}-{}-{}-{:016x}.json", prop, seed, f.phase, f.unit, crate::prng::fnv_str(&fp));
        let path = replays.join(name);
        if let Err(e) = std::fs::write(&path, serde_json::to_string_pretty(&rf).unwrap()) {
            eprintln!("harness error: cannot write replay file: {}", e);
            return 2;
        }
        // the minimised file must reproduce in a fresh process
        let code = Command::new(self_exe()).arg("replay").arg(&path).stdout(Stdio::null()).stderr(Stdio::null()).status().map(|s| s.code().unwrap_or(-1)).unwrap_or(-1);
        if code != 1 {
            eprintln!("harness error: replay of {} does not reproduce (exit {})", path.display(), code);
            return 2;
        }
        println!("violation: {} :: {}", fp, detail);
        println!("VIOLATION property={} replay={}", prop, path.display());
        n_viol += 1;
    }
    if violations.len() > 3 {
        for (_, x) in violations.iter().skip(3).take(12) {
            println!("also: {} :: {}", x.fingerprint(), x.detail.chars().take(200).collect::<String>());
        }
        println!("({} further distinct fingerprints not written out)", violations.len() - 3);
    }

    write_evidence(prop, tier, seed, &stats, n_viol, t0.elapsed().as_secs_f64(), total_units, &known_hit, workers);
    println!(
        "done: evaluations={} logical_steps={} distinct={} violations={} wall={:.1}s",
        stats.evaluations,
        stats.steps,
        stats.distinct.len(),
        n_viol,
        t0.elapsed().as_secs_f64()
    );
    if n_viol > 0 {
        1
    } else {
        0
    }
}

#[allow(clippy::too_many_arguments)]
fn write_evidence(prop: &str, tier: Tier, seed: u64, st: &Stats, violations: usize, wall: f64, units: u64, known_hit: &BTreeMap<String, String>, workers: u64) {
    let m = checks::meta(prop);
    let per_hour = if wall > 0.0 { (st.evaluations as f64 / wall * 3600.0) as u64 } else { 0 };
    let phases: Vec<serde_json::Value> = checks::phases(prop, tier).iter().map(|p| serde_json::json!({"name": p.name, "units": p.units, "seeded": p.seeded})).collect();
    let ev = serde_json::json!({
        "property_id": prop,
        "tier": tier.name(),
        "seed": seed,
        "level": m.level,
        "coverage": {
            "evaluations": st.evaluations,
            "distinct_nontrivial": st.distinct.len(),
            "rule": m.rule,
            "samples": st.samples,
            "exhaustive": m.exhaustive,
            "explanation": m.explanation,
            "runs_per_hour": per_hour,
            "logical_steps": st.steps,
            "execution_digest": format!("{:016x}", st.log_digest),
            "execution_digest_note": "order-independent sum over all units of hash(unit id, evaluations, steps, fingerprints found) plus a hash of every device event (device, kind, position, bytes asked/moved, error) of every simulated world; equal digests across runs, worker counts and environments = same executions",
            "simulated_time_note": "the code under test reads no clock; simulated time is the number of device operations executed (logical_steps)",
            "faults_fired": st.faults,
            "reach": st.reach,
            "phases": phases,
            "units": units,
            "workers": workers,
            "known_findings_hit": known_hit,
            "components": {
                "real": ["shapefile-rs (all of /repo/src, current working tree, overflow-checks and debug-assertions on)", "dbase 0.6.1", "byteorder", "std::io::{BufReader, BufWriter}"],
                "stub": ["storage devices: SimHandle (in-memory, owns fault plan and event log)", "allocator: System wrapped by a counting monitor"],
                "real_fault_free_only": ["std::fs on a scratch directory for the by-path routes"],
                "absent": ["clock", "network", "threads"]
            }
        },
        "assumptions": [
            "a clean batch is evidence over the explored workloads, fault points and histories, not proof",
            "shapes are built through the public constructors within their documented preconditions",
            "the reference encoder/decoder (written from the ESRI whitepaper, sharing no code with the library) is itself correct"
        ],
        "wall_s": wall,
        "violations": violations
    });
    let dir = verif_dir().join("evidence");
    let _ = std::fs::create_dir_all(&dir);
    if let Err(e) = std::fs::write(dir.join(format!("{}.json", prop)), serde_json::to_string_pretty(&ev).unwrap()) {
        eprintln!("harness error: cannot write evidence: {}", e);
        std::process::exit(2);
    }
}

/// Execute the scenario of a replay file in this process and print the fails as JSON.
pub fn cmd_exec(path: &Path) -> i32 {
    install_panic_hook();
    let text = match std::fs::read_to_string(path) {
        Ok(t) => t,
        Err(e) => {
            eprintln!("harness error: {}", e);
            return 2;
        }
    };
    let rf: ReplayFile = match serde_json::from_str(&text) {
        Ok(r) => r,
        Err(e) => {
            eprintln!("harness error: {}", e);
            return 2;
        }
    };
    let mut ctx = Ctx::new();
    let r = guarded(|| execute(&rf.scenario, &mut ctx));
    if let Err(p) = r {
        ctx.fails.push(Fail { prop: "HARNESS".into(), clause: "escaped-panic".into(), site: p.site(), detail: p.text() });
    }
    println!("F {}", serde_json::to_string(&ctx.fails).unwrap());
    0
}

/// Replay: run the scenario in a fresh child process; exit 1 with the VIOLATION line iff the same
/// clause of the same property fails at the same site.
pub fn cmd_replay(path: &Path) -> i32 {
    let text = match std::fs::read_to_string(path) {
        Ok(t) => t,
        Err(e) => {
            eprintln!("harness error: {}", e);
            return 2;
        }
    };
    let rf: ReplayFile = match serde_json::from_str(&text) {
        Ok(r) => r,
        Err(e) => {
            eprintln!("harness error: {}", e);
            return 2;
        }
    };
    let args: Vec<String> = vec!["exec".into(), path.to_string_lossy().to_string()];
    let mut child = match spawn_self(&args) {
        Ok(c) => c,
        Err(e) => {
            eprintln!("harness error: {}", e);
            return 2;
        }
    };
    let stdout = child.stdout.take().unwrap();
    let (tx, rx) = mpsc::channel::<String>();
    std::thread::spawn(move || {
        for line in BufReader::new(stdout).lines().map_while(Result::ok) {
            let _ = tx.send(line);
        }
    });
    let mut fails: Option<Vec<Fail>> = None;
    let started = Instant::now();
    let deadline = Instant::now() + Duration::from_secs(60);
    let mut hung = false;
    loop {
        match rx.recv_timeout(Duration::from_secs(1)) {
            Ok(l) => {
                if let Some(rest) = l.strip_prefix("F ") {
                    fails = serde_json::from_str(rest).ok();
                }
            }
            Err(mpsc::RecvTimeoutError::Disconnected) => break,
            Err(mpsc::RecvTimeoutError::Timeout) => {
                if Instant::now() > deadline {
                    hung = true;
                    let _ = child.kill();
                    break;
                }
            }
        }
    }
    reap(&mut child);
    // a "hang" finding is a case that takes out of proportion long: reproduced iff it still does
    if rf.clause == "hang" && !hung && started.elapsed() > Duration::from_secs(4) {
        hung = true;
        fails = None;
    }
    let fails = match fails {
        Some(f) => f,
        None => vec![Fail {
            prop: rf.property.clone(),
            clause: if hung { "hang".into() } else { "abort".into() },
            site: "process".into(),
            detail: "the process executing this scenario did not finish".into(),
        }],
    };
    for f in &fails {
        println!("observed: {} :: {}", f.fingerprint(), f.detail);
    }
    if fails.iter().any(|f| f.fingerprint() == rf.fingerprint) {
        println!("VIOLATION property={} replay={}", rf.property, path.display());
        1
    } else {
        println!("not reproduced: {}", rf.fingerprint);
        0
    }
}
