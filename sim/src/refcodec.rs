//! Reference encoder and strict reference decoder for .shp/.shx, written from the ESRI
//! Shapefile Technical Description (July 1998). Shares no code with the library under test:
//! no byteorder, no shapefile types, only from/to_{le,be}_bytes on slices.

use crate::geom::*;

fn be32(b: &[u8], o: usize) -> i32 {
    i32::from_be_bytes([b[o], b[o + 1], b[o + 2], b[o + 3]])
}
fn le32(b: &[u8], o: usize) -> i32 {
    i32::from_le_bytes([b[o], b[o + 1], b[o + 2], b[o + 3]])
}
fn le64(b: &[u8], o: usize) -> u64 {
    u64::from_le_bytes([b[o], b[o + 1], b[o + 2], b[o + 3], b[o + 4], b[o + 5], b[o + 6], b[o + 7]])
}
fn put_be32(v: &mut Vec<u8>, x: i32) {
    v.extend_from_slice(&x.to_be_bytes());
}
fn put_le32(v: &mut Vec<u8>, x: i32) {
    v.extend_from_slice(&x.to_le_bytes());
}
fn put_le64(v: &mut Vec<u8>, x: u64) {
    v.extend_from_slice(&x.to_le_bytes());
}

/// A 32-bit field of a file, for the corruption family.
#[derive(Clone, Debug)]
pub struct FieldLoc {
    pub id: String,
    pub off: usize,
    pub big_endian: bool,
}

#[derive(Clone, Debug)]
pub struct DecRec {
    pub offset: usize,
    pub number: i32,
    pub content_words: i32,
    pub geom: Geom,
    pub m_present: bool,
}

#[derive(Clone, Debug)]
pub struct DecFile {
    pub ty: i32,
    pub length_words: i32,
    /// header box: xmin, ymin, xmax, ymax, zmin, zmax, mmin, mmax
    pub bbox: [u64; 8],
    pub recs: Vec<DecRec>,
    pub fields: Vec<FieldLoc>,
}

/// Size in bytes of the content (type code included) of a record of type `ty`.
pub fn content_size(ty: i32, nparts: usize, npoints: usize, m_present: bool) -> usize {
    let mut s = 4;
    match ty {
        0 => {}
        1 => s += 16,
        21 => s += 24,
        11 => s += if m_present { 32 } else { 24 },
        8 | 28 | 18 => {
            s += 32 + 4 + 16 * npoints;
            if ty == 18 {
                s += 16 + 8 * npoints;
            }
            if ty != 8 && m_present {
                s += 16 + 8 * npoints;
            }
        }
        3 | 5 | 23 | 25 | 13 | 15 | 31 => {
            s += 32 + 8 + 4 * nparts + 16 * npoints;
            if ty == 31 {
                s += 4 * nparts;
            }
            if has_z(ty) {
                s += 16 + 8 * npoints;
            }
            if ty != 3 && ty != 5 && m_present {
                s += 16 + 8 * npoints;
            }
        }
        _ => {}
    }
    s
}

/// Encode the content of one record (type code first).
pub fn enc_content(g: &Geom, m_present: bool) -> Vec<u8> {
    let mut v = Vec::new();
    put_le32(&mut v, g.ty);
    let ty = g.ty;
    if ty == 0 {
        return v;
    }
    if is_point(ty) {
        let p = &g.parts[0].pts[0];
        put_le64(&mut v, p[0]);
        put_le64(&mut v, p[1]);
        if ty == 11 {
            put_le64(&mut v, p[2]);
        }
        if ty == 21 || (ty == 11 && m_present) {
            put_le64(&mut v, p[3]);
        }
        return v;
    }
    let bb = g.bbox.unwrap_or([0; 8]);
    for i in 0..4 {
        put_le64(&mut v, bb[i]);
    }
    let npoints = g.n_points();
    if is_multipoint(ty) {
        put_le32(&mut v, npoints as i32);
    } else {
        put_le32(&mut v, g.parts.len() as i32);
        put_le32(&mut v, npoints as i32);
        let mut acc = 0i32;
        for p in &g.parts {
            put_le32(&mut v, acc);
            acc += p.pts.len() as i32;
        }
        if ty == 31 {
            for p in &g.parts {
                put_le32(&mut v, p.kind);
            }
        }
    }
    for p in &g.parts {
        for q in &p.pts {
            put_le64(&mut v, q[0]);
            put_le64(&mut v, q[1]);
        }
    }
    if has_z(ty) {
        put_le64(&mut v, bb[4]);
        put_le64(&mut v, bb[5]);
        for p in &g.parts {
            for q in &p.pts {
                put_le64(&mut v, q[2]);
            }
        }
    }
    if has_m(ty) && m_present {
        put_le64(&mut v, bb[6]);
        put_le64(&mut v, bb[7]);
        for p in &g.parts {
            for q in &p.pts {
                put_le64(&mut v, q[3]);
            }
        }
    }
    v
}

pub fn enc_header(ty: i32, length_words: i32, bbox: &[u64; 8]) -> Vec<u8> {
    let mut v = Vec::with_capacity(100);
    put_be32(&mut v, 9994);
    for _ in 0..5 {
        put_be32(&mut v, 0);
    }
    put_be32(&mut v, length_words);
    put_le32(&mut v, 1000);
    put_le32(&mut v, ty);
    for b in bbox {
        put_le64(&mut v, *b);
    }
    v
}

#[derive(Clone, Debug)]
pub struct RecEnc {
    pub number: i32,
    pub geom: Geom,
    pub m_present: bool,
}

/// A whole file as the reference encoder lays it out.
#[derive(Clone, Debug)]
pub struct FileEnc {
    pub ty: i32,
    pub hdr_bbox: [u64; 8],
    /// records in index (logical) order
    pub recs: Vec<RecEnc>,
    /// physical order: `order[k]` = logical index of the k-th record stored; empty = identity
    pub order: Vec<usize>,
    /// filler bytes before each physically stored record and after the last (len n+1); empty = none
    pub filler: Vec<Vec<u8>>,
    /// header length field override (words); None = real length
    pub declared_words: Option<i32>,
    /// bytes appended after everything else (not covered by the real length)
    pub trailing: Vec<u8>,
}

/// Returns (shp, shx, offsets[logical index] of each record header in bytes).
pub fn encode(f: &FileEnc) -> (Vec<u8>, Vec<u8>, Vec<usize>) {
    let n = f.recs.len();
    let order: Vec<usize> = if f.order.is_empty() { (0..n).collect() } else { f.order.clone() };
    let mut body: Vec<u8> = Vec::new();
    let mut offsets = vec![0usize; n];
    let mut words = vec![0i32; n];
    for (k, &li) in order.iter().enumerate() {
        if let Some(fl) = f.filler.get(k) {
            body.extend_from_slice(fl);
        }
        let r = &f.recs[li];
        let content = enc_content(&r.geom, r.m_present);
        offsets[li] = 100 + body.len();
        words[li] = (content.len() / 2) as i32;
        put_be32(&mut body, r.number);
        put_be32(&mut body, words[li]);
        body.extend_from_slice(&content);
    }
    if let Some(fl) = f.filler.get(n) {
        body.extend_from_slice(fl);
    }
    let real_words = ((100 + body.len()) / 2) as i32;
    let mut shp = enc_header(f.ty, f.declared_words.unwrap_or(real_words), &f.hdr_bbox);
    shp.extend_from_slice(&body);
    shp.extend_from_slice(&f.trailing);
    let mut shx = enc_header(f.ty, (50 + 4 * n) as i32, &f.hdr_bbox);
    for i in 0..n {
        put_be32(&mut shx, (offsets[i] / 2) as i32);
        put_be32(&mut shx, words[i]);
    }
    (shp, shx, offsets)
}

/// Decode the content of one record (after the 8-byte record header). `content` is exactly the
/// declared content. Strict: every length must match exactly.
pub fn dec_content(content: &[u8], base: usize, fields: &mut Vec<FieldLoc>, ri: usize) -> Result<(Geom, bool), String> {
    if content.len() < 4 {
        return Err("content shorter than a type code".into());
    }
    let ty = le32(content, 0);
    fields.push(FieldLoc { id: format!("rec{}.type", ri), off: base, big_endian: false });
    if !ALL_CODES.contains(&ty) {
        return Err(format!("invalid record type {}", ty));
    }
    if ty == 0 {
        if content.len() != 4 {
            return Err("null shape with content".into());
        }
        return Ok((Geom::null(), false));
    }
    let c = content;
    if is_point(ty) {
        let (want_m, want_nom) = match ty {
            1 => (20, 20),
            21 => (28, 28),
            _ => (36, 28),
        };
        if c.len() != want_m && c.len() != want_nom {
            return Err(format!("point record of {} bytes", c.len()));
        }
        let mut v: V = [le64(c, 4), le64(c, 12), 0, 0];
        let mut m_present = false;
        if ty == 11 {
            v[2] = le64(c, 20);
            if c.len() == 36 {
                v[3] = le64(c, 28);
                m_present = true;
            } else {
                v[3] = NO_DATA_BITS;
            }
        }
        if ty == 21 {
            v[3] = le64(c, 20);
            m_present = true;
        }
        return Ok((Geom { ty, parts: vec![Part { kind: -1, pts: vec![v] }], bbox: None }, m_present));
    }
    if c.len() < 4 + 32 + 4 {
        return Err("multi-vertex record too short".into());
    }
    let mut bbox = [le64(c, 4), le64(c, 12), le64(c, 20), le64(c, 28), 0, 0, 0, 0];
    let mut o = 36;
    let (nparts, npoints);
    if is_multipoint(ty) {
        nparts = 1usize;
        fields.push(FieldLoc { id: format!("rec{}.npoints", ri), off: base + o, big_endian: false });
        let np = le32(c, o);
        o += 4;
        if np < 0 {
            return Err("negative point count".into());
        }
        npoints = np as usize;
    } else {
        if c.len() < 44 {
            return Err("multi-part record too short".into());
        }
        fields.push(FieldLoc { id: format!("rec{}.nparts", ri), off: base + o, big_endian: false });
        fields.push(FieldLoc { id: format!("rec{}.npoints", ri), off: base + o + 4, big_endian: false });
        let a = le32(c, o);
        let b = le32(c, o + 4);
        o += 8;
        if a < 0 || b < 0 {
            return Err("negative count".into());
        }
        nparts = a as usize;
        npoints = b as usize;
    }
    let with_m = content_size(ty, nparts, npoints, true);
    let without_m = content_size(ty, nparts, npoints, false);
    if c.len() != with_m && c.len() != without_m {
        return Err(format!("content length {} matches neither {} nor {}", c.len(), with_m, without_m));
    }
    let m_present = has_m(ty) && c.len() == with_m;
    let mut starts: Vec<usize> = vec![0];
    let mut kinds: Vec<i32> = vec![-1; nparts];
    if !is_multipoint(ty) {
        starts.clear();
        for i in 0..nparts {
            fields.push(FieldLoc { id: format!("rec{}.part{}", ri, i), off: base + o, big_endian: false });
            let s = le32(c, o);
            o += 4;
            if s < 0 || s as usize > npoints {
                return Err(format!("part offset {} out of range", s));
            }
            if i == 0 && s != 0 {
                return Err("first part offset not 0".into());
            }
            if let Some(&prev) = starts.last() {
                if (s as usize) < prev {
                    return Err("descending part offsets".into());
                }
            }
            starts.push(s as usize);
        }
        if ty == 31 {
            for (i, k) in kinds.iter_mut().enumerate() {
                fields.push(FieldLoc { id: format!("rec{}.kind{}", ri, i), off: base + o, big_endian: false });
                *k = le32(c, o);
                o += 4;
                if !(0..=5).contains(k) {
                    return Err(format!("patch kind {}", *k));
                }
            }
        }
    }
    let mut all: Vec<V> = Vec::with_capacity(npoints);
    for _ in 0..npoints {
        all.push([le64(c, o), le64(c, o + 8), 0, 0]);
        o += 16;
    }
    if has_z(ty) {
        bbox[4] = le64(c, o);
        bbox[5] = le64(c, o + 8);
        o += 16;
        for p in all.iter_mut() {
            p[2] = le64(c, o);
            o += 8;
        }
    }
    if has_m(ty) {
        if m_present {
            bbox[6] = le64(c, o);
            bbox[7] = le64(c, o + 8);
            o += 16;
            for p in all.iter_mut() {
                p[3] = le64(c, o);
                o += 8;
            }
        } else {
            for p in all.iter_mut() {
                p[3] = NO_DATA_BITS;
            }
        }
    }
    if o != c.len() {
        return Err(format!("decoded {} of {} content bytes", o, c.len()));
    }
    let mut parts = Vec::with_capacity(nparts);
    if nparts == 0 && npoints != 0 {
        return Err("points without parts".into());
    }
    for i in 0..starts.len().min(nparts) {
        let a = starts[i];
        let b = if i + 1 < starts.len() { starts[i + 1] } else { npoints };
        parts.push(Part { kind: kinds[i], pts: all[a..b].to_vec() });
    }
    Ok((Geom { ty, parts, bbox: Some(bbox) }, m_present))
}

/// Strict validator/decoder of a whole .shp.
pub fn decode(shp: &[u8]) -> Result<DecFile, String> {
    decode_opts(shp, true)
}

/// Layout decoder for harness purposes (field offsets, record bounds): like `decode` but record
/// numbers are not judged, so that a numbering defect is reported by C02 only and does not stop
/// the families that merely need to know where the records are.
pub fn decode_layout(shp: &[u8]) -> Result<DecFile, String> {
    decode_opts(shp, false)
}

fn decode_opts(shp: &[u8], strict_numbers: bool) -> Result<DecFile, String> {
    if shp.len() < 100 {
        return Err(format!("file of {} bytes, shorter than a header", shp.len()));
    }
    if be32(shp, 0) != 9994 {
        return Err(format!("file code {}", be32(shp, 0)));
    }
    for i in 1..6 {
        if be32(shp, 4 * i) != 0 {
            return Err(format!("unused header word {} is not zero", i));
        }
    }
    let length_words = be32(shp, 24);
    if length_words as i64 * 2 != shp.len() as i64 {
        return Err(format!("header length field {} words but file has {} bytes", length_words, shp.len()));
    }
    if le32(shp, 28) != 1000 {
        return Err(format!("version {}", le32(shp, 28)));
    }
    let ty = le32(shp, 32);
    if !ALL_CODES.contains(&ty) {
        return Err(format!("header type {}", ty));
    }
    let mut bbox = [0u64; 8];
    for (i, b) in bbox.iter_mut().enumerate() {
        *b = le64(shp, 36 + 8 * i);
    }
    let mut fields = vec![
        FieldLoc { id: "hdr.length".into(), off: 24, big_endian: true },
        FieldLoc { id: "hdr.version".into(), off: 28, big_endian: false },
        FieldLoc { id: "hdr.type".into(), off: 32, big_endian: false },
    ];
    let mut recs = Vec::new();
    let mut o = 100usize;
    while o < shp.len() {
        if o + 8 > shp.len() {
            return Err(format!("truncated record header at {}", o));
        }
        let ri = recs.len();
        let number = be32(shp, o);
        let words = be32(shp, o + 4);
        fields.push(FieldLoc { id: format!("rec{}.number", ri), off: o, big_endian: true });
        fields.push(FieldLoc { id: format!("rec{}.length", ri), off: o + 4, big_endian: true });
        if strict_numbers && number != ri as i32 + 1 {
            return Err(format!("record {} numbered {}", ri + 1, number));
        }
        if words < 2 {
            return Err(format!("record {} content length {} words", ri + 1, words));
        }
        let end = o + 8 + words as usize * 2;
        if end > shp.len() {
            return Err(format!("record {} extends past the end of the file", ri + 1));
        }
        let (geom, m_present) = dec_content(&shp[o + 8..end], o + 8, &mut fields, ri).map_err(|e| format!("record {}: {}", ri + 1, e))?;
        if geom.ty != 0 && geom.ty != ty {
            return Err(format!("record {} of type {} in a file of type {}", ri + 1, geom.ty, ty));
        }
        recs.push(DecRec { offset: o, number, content_words: words, geom, m_present });
        o = end;
    }
    Ok(DecFile { ty, length_words, bbox, recs, fields })
}

#[derive(Clone, Debug)]
pub struct DecIndex {
    pub ty: i32,
    pub length_words: i32,
    pub entries: Vec<(i32, i32)>,
    pub fields: Vec<FieldLoc>,
}

pub fn decode_shx(shx: &[u8]) -> Result<DecIndex, String> {
    if shx.len() < 100 {
        return Err(format!("index of {} bytes", shx.len()));
    }
    if be32(shx, 0) != 9994 {
        return Err("index file code".into());
    }
    let length_words = be32(shx, 24);
    if length_words as i64 * 2 != shx.len() as i64 {
        return Err(format!("index length field {} words but file has {} bytes", length_words, shx.len()));
    }
    if (shx.len() - 100) % 8 != 0 {
        return Err("index body not a multiple of 8".into());
    }
    let mut fields = vec![
        FieldLoc { id: "shx.length".into(), off: 24, big_endian: true },
        FieldLoc { id: "shx.type".into(), off: 32, big_endian: false },
    ];
    let mut entries = Vec::new();
    let mut o = 100;
    while o < shx.len() {
        fields.push(FieldLoc { id: format!("shx.off{}", entries.len()), off: o, big_endian: true });
        fields.push(FieldLoc { id: format!("shx.len{}", entries.len()), off: o + 4, big_endian: true });
        entries.push((be32(shx, o), be32(shx, o + 4)));
        o += 8;
    }
    Ok(DecIndex { ty: le32(shx, 32), length_words, entries, fields })
}

/// C04 on bytes: does `shx` address exactly the records of `shp` (record boundaries from `decode`)?
/// The index read on its own: every entry points at bytes of the .shp that are the header of the
/// record of that rank (number i+1, the same content length). Needs no decodable .shp.
pub fn check_index_entries(shp: &[u8], shx: &[u8]) -> Result<(), String> {
    let idx = decode_shx(shx)?;
    for (i, (off, len)) in idx.entries.iter().enumerate() {
        let at = *off as i64 * 2;
        if at < 100 || at as usize + 8 > shp.len() {
            return Err(format!("index entry {} points at byte {} of a .shp of {} bytes", i, at, shp.len()));
        }
        let at = at as usize;
        let num = i32::from_be_bytes([shp[at], shp[at + 1], shp[at + 2], shp[at + 3]]);
        let words = i32::from_be_bytes([shp[at + 4], shp[at + 5], shp[at + 6], shp[at + 7]]);
        if num != i as i32 + 1 || words != *len {
            return Err(format!("index entry {} = ({}, {}) but the .shp holds (number {}, {} words) there", i, off, len, num, words));
        }
    }
    Ok(())
}

pub fn check_index(shp: &[u8], shx: &[u8], dec: &DecFile) -> Result<(), String> {
    let idx = decode_shx(shx)?;
    if shx[0..24] != shp[0..24] {
        return Err("index header bytes 0..24 differ from the .shp header".into());
    }
    if shx[28..100] != shp[28..100] {
        return Err("index header bytes 28..100 differ from the .shp header".into());
    }
    let n = dec.recs.len();
    if idx.length_words != (50 + 4 * n) as i32 {
        return Err(format!("index length {} words for {} records", idx.length_words, n));
    }
    if idx.entries.len() != n {
        return Err(format!("{} index entries for {} records", idx.entries.len(), n));
    }
    for (i, r) in dec.recs.iter().enumerate() {
        let (off, len) = idx.entries[i];
        if off as i64 * 2 != r.offset as i64 || len != r.content_words {
            return Err(format!(
                "index entry {} = ({}, {}) but record {} starts at word {} with {} content words",
                i,
                off,
                len,
                i,
                r.offset / 2,
                r.content_words
            ));
        }
    }
    Ok(())
}

/// Forty lines of dBase: (declared rows, header length, row length, rows physically present, well-formed?)
#[derive(Clone, Debug, PartialEq)]
pub struct DbfInfo {
    pub rows_declared: u32,
    pub header_len: usize,
    pub row_len: usize,
    pub rows_physical: usize,
    pub stray_bytes: usize,
    pub terminated: bool,
}

pub fn dbf_info(dbf: &[u8]) -> Result<DbfInfo, String> {
    if dbf.len() < 32 {
        return Err(format!("dbf of {} bytes", dbf.len()));
    }
    let rows_declared = u32::from_le_bytes([dbf[4], dbf[5], dbf[6], dbf[7]]);
    let header_len = u16::from_le_bytes([dbf[8], dbf[9]]) as usize;
    let row_len = u16::from_le_bytes([dbf[10], dbf[11]]) as usize;
    if header_len > dbf.len() || row_len == 0 {
        return Err("dbf header inconsistent".into());
    }
    let body = dbf.len() - header_len;
    let terminated = dbf.last() == Some(&0x1A);
    let payload = if terminated { body - 1.min(body) } else { body };
    Ok(DbfInfo {
        rows_declared,
        header_len,
        row_len,
        rows_physical: payload / row_len,
        stray_bytes: payload % row_len,
        terminated,
    })
}
