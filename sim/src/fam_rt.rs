//! Family RT: the fault-free configuration of the simulator. Real writer -> device bytes ->
//! independent decoder and real reader over the whole route matrix, under masked transfer
//! schedules (S1) and stacks (S4). Decides C01, C02, C04, C05, C06 (value part), C18.

use crate::core::*;
use crate::gen::*;
use crate::geom::*;
use crate::prng::Rng;
use crate::rd::*;
use crate::refcodec::*;
use crate::world::*;
use crate::wrun::*;
use crate::{on_shape, on_type};
use serde::{Deserialize, Serialize};
use shapefile::record::WritableShape;
use shapefile::Shape;

#[derive(Clone, Debug, Serialize, Deserialize)]
pub struct RtScn {
    pub w: WProg,
    /// masked transfer schedules of the destinations (chunks / EINTR only)
    pub wplan: Plan,
    pub rstack: StackCfg,
    pub rplan: Plan,
    /// also run the by-path routes on a scratch directory
    pub path: bool,
}

pub fn generate(r: &mut Rng, focus: &str) -> RtScn {
    let ty = *r.pick(&TYPES);
    let mut k = ShapeKnobs::draw(r);
    if focus == "C05" {
        k.zm &= !F_NAN;
        if r.chance(1, 2) {
            k.xy |= F_INF | F_SENTINEL;
            k.zm |= F_INF | F_SENTINEL;
        }
        if r.chance(1, 3) {
            // every measure real data, so that the header M range is judged
            k.zm &= !F_NODATA & !F_SENTINEL & !F_ANYFINITE;
            if k.zm == 0 {
                k.zm = F_SMALLINT | F_INF;
            }
        }
    }
    let n = if focus == "C04" || focus == "C02" {
        if r.chance(1, 8) { 0 } else if r.chance(1, 30) { r.usize(7, 40) } else { r.usize(1, 6) }
    } else if r.chance(1, 30) {
        r.usize(7, 40)
    } else {
        r.usize(1, 6)
    };
    let mut shapes: Vec<ShapeSpec> = (0..n).map(|_| gen_spec(r, ty, &k)).collect();
    if r.chance(3, 4) {
        for (i, s) in shapes.iter_mut().enumerate() {
            tag_spec(s, i);
        }
    }
    // history: writes in order, finalize calls anywhere (never before the first write: C09's business)
    let mut calls = Vec::new();
    let n_direct = if r.chance(1, 4) { r.usize(0, n) } else { n };
    for i in 0..n_direct {
        calls.push(WCall::W(i));
        if r.chance(1, 5) {
            calls.push(WCall::Fin);
            if r.chance(1, 4) {
                calls.push(WCall::Fin);
            }
        }
    }
    let ending = if n_direct < n {
        Ending::WriteShapes((n_direct..n).collect())
    } else if r.chance(1, 3) {
        Ending::FinDrop
    } else if r.chance(1, 6) {
        // the caller's program dies by a panic: the writer goes away through unwinding
        Ending::PanicUnwind
    } else {
        Ending::Drop
    };
    let with_shx = focus == "C04" || r.chance(3, 4);
    let mut wplan = Plan::default();
    wplan.dev[SHP] = gen_devcfg(r, true);
    wplan.dev[SHX] = gen_devcfg(r, true);
    let mut rplan = Plan::default();
    rplan.dev[SHP] = gen_devcfg(r, true);
    rplan.dev[SHX] = gen_devcfg(r, true);
    let mut scn = RtScn {
        w: WProg { shapes, others: vec![], calls, ending, with_shx, stack: gen_stack(r) },
        wplan,
        rstack: gen_stack(r),
        rplan,
        path: r.chance(1, 16),
    };
    // the (empty) destinations are not at their start when the writer gets them
    if r.chance(1, 8) {
        scn.wplan.dev[SHP].start = *r.pick(&[1u32, 8, 99, 100, 101, 4096]);
        scn.wplan.dev[SHX].start = *r.pick(&[0u32, 1, 100, 108, 5000]);
    }
    scn
}

/// Independent extremes of a set of vertices (x, y, z, m): [min; 4], [max; 4]; None if empty.
fn extremes<'a>(vs: impl Iterator<Item = &'a V>) -> Option<([f64; 4], [f64; 4])> {
    let mut it = vs;
    let first = it.next()?;
    let f = |v: &V| [f64::from_bits(v[0]), f64::from_bits(v[1]), f64::from_bits(v[2]), f64::from_bits(v[3])];
    let mut lo = f(first);
    let mut hi = f(first);
    for v in it {
        let p = f(v);
        for d in 0..4 {
            if p[d] < lo[d] {
                lo[d] = p[d];
            }
            if p[d] > hi[d] {
                hi[d] = p[d];
            }
        }
    }
    Some((lo, hi))
}

fn any_nan(g: &Geom) -> bool {
    g.parts.iter().any(|p| p.pts.iter().any(|v| v.iter().any(|b| f64::from_bits(*b).is_nan())))
}
fn all_m_real(g: &Geom) -> bool {
    let nd = f64::from_bits(NO_DATA_BITS);
    g.parts.iter().all(|p| p.pts.iter().all(|v| f64::from_bits(v[3]) > nd))
}

/// C05 for one multi-vertex shape: `bbox` (bits) against the extremes of `g`'s vertices.
fn check_shape_bbox(ctx: &mut Ctx, what: &str, g: &Geom, bbox: &[u64; 8]) {
    if any_nan(g) {
        return;
    }
    let Some((lo, hi)) = extremes(g.parts.iter().flat_map(|p| p.pts.iter())) else { return };
    let b: Vec<f64> = bbox.iter().map(|x| f64::from_bits(*x)).collect();
    let mut bad = Vec::new();
    if b[0] != lo[0] || b[1] != lo[1] || b[2] != hi[0] || b[3] != hi[1] {
        bad.push(format!("xy box [{:e},{:e},{:e},{:e}] vs extremes [{:e},{:e},{:e},{:e}]", b[0], b[1], b[2], b[3], lo[0], lo[1], hi[0], hi[1]));
    }
    if has_z(g.ty) && (b[4] != lo[2] || b[5] != hi[2]) {
        bad.push(format!("z range [{:e},{:e}] vs [{:e},{:e}]", b[4], b[5], lo[2], hi[2]));
    }
    if has_m(g.ty) && (b[6] != lo[3] || b[7] != hi[3]) {
        bad.push(format!("m range [{:e},{:e}] vs [{:e},{:e}]", b[6], b[7], lo[3], hi[3]));
    }
    if !bad.is_empty() {
        ctx.fail("C05", "shape-bbox", format!("{}:{}", what, type_name(g.ty)), format!("{} of {}: {}", what, g.short(), bad.join("; ")));
    }
}

/// C05 for the header: `hdr` (bits) against the extremes over all written geometries.
pub fn check_header_bbox(ctx: &mut Ctx, what: &str, ty: i32, written: &[&Geom], hdr: &[u64; 8]) {
    if written.iter().any(|g| any_nan(g)) {
        ctx.stats.reach("c05-skipped-nan");
        return;
    }
    let h: Vec<f64> = hdr.iter().map(|x| f64::from_bits(*x)).collect();
    let Some((lo, hi)) = extremes(written.iter().flat_map(|g| g.parts.iter().flat_map(|p| p.pts.iter()))) else {
        if h.iter().any(|x| *x != 0.0) {
            ctx.fail("C05", "header-bbox", "empty", format!("{}: header box of an empty file is {:?}", what, h));
        }
        return;
    };
    let mut bad = Vec::new();
    if h[0] != lo[0] || h[1] != lo[1] || h[2] != hi[0] || h[3] != hi[1] {
        bad.push(format!("xy [{:e},{:e},{:e},{:e}] vs extremes [{:e},{:e},{:e},{:e}]", h[0], h[1], h[2], h[3], lo[0], lo[1], hi[0], hi[1]));
    }
    if has_z(ty) {
        if h[4] != lo[2] || h[5] != hi[2] {
            bad.push(format!("z [{:e},{:e}] vs [{:e},{:e}]", h[4], h[5], lo[2], hi[2]));
        }
    } else if h[4] != 0.0 || h[5] != 0.0 {
        bad.push(format!("z range [{:e},{:e}] of a type without z", h[4], h[5]));
    }
    if has_m(ty) && ty != 31 {
        if written.iter().all(|g| all_m_real(g)) {
            ctx.stats.reach("c05-header-m-judged");
            if h[6] != lo[3] || h[7] != hi[3] {
                bad.push(format!("m [{:e},{:e}] vs [{:e},{:e}]", h[6], h[7], lo[3], hi[3]));
            }
        }
    } else if ty != 31 && (h[6] != 0.0 || h[7] != 0.0) {
        bad.push(format!("m range [{:e},{:e}] of a type without m", h[6], h[7]));
    }
    if !bad.is_empty() {
        let inf = written.iter().any(|g| g.parts.iter().any(|p| p.pts.iter().any(|v| v.iter().any(|b| f64::from_bits(*b).is_infinite()))));
        ctx.fail("C05", "header-bbox", if inf { "with-inf" } else { "finite" }, format!("{}: {}", what, bad.join("; ")));
    }
}

fn hdr_bits(h: &shapefile::header::Header) -> [u64; 8] {
    [
        h.bbox.min.x.to_bits(),
        h.bbox.min.y.to_bits(),
        h.bbox.max.x.to_bits(),
        h.bbox.max.y.to_bits(),
        h.bbox.min.z.to_bits(),
        h.bbox.max.z.to_bits(),
        h.bbox.min.m.to_bits(),
        h.bbox.max.m.to_bits(),
    ]
}

/// C02 + C04 + C05 (bytes) + C18 (content length) on the device content left by a writer.
/// Returns the decoded file when well-formed.
pub fn check_bytes(ctx: &mut Ctx, ty: i32, shp: &[u8], shx: Option<&[u8]>, written: &[&Geom], site: &str) -> Option<DecFile> {
    if let Some(shx) = shx {
        // the index on its own terms, whatever the strict decoder makes of the .shp
        if shx.len() >= 100 {
            if let Err(e) = check_index_entries(shp, shx) {
                ctx.fail("C04", "index-points-at-record-headers", site, e);
            }
        }
    }
    let dec = match decode(shp) {
        Ok(d) => d,
        Err(e) => {
            ctx.fail("C02", "well-formed", site, format!("strict decoder rejects the .shp: {}", e));
            return None;
        }
    };
    if written.is_empty() {
        if shp.len() != 100 {
            ctx.fail("C02", "empty-file", site, format!("writer dropped unused left {} bytes", shp.len()));
        }
    } else if dec.ty != ty {
        ctx.fail("C02", "header-type", site, format!("header type {} for shapes of type {}", dec.ty, ty));
    }
    if dec.recs.len() != written.len() {
        ctx.fail("C02", "record-count", site, format!("{} records decoded, {} shapes written", dec.recs.len(), written.len()));
        return Some(dec);
    }
    for (i, (r, g)) in dec.recs.iter().zip(written.iter()).enumerate() {
        if r.geom.ty != ty {
            ctx.fail("C02", "record-type", site, format!("record {} has type {}", i + 1, r.geom.ty));
        }
        if has_m(ty) && !r.m_present {
            ctx.fail("C02", "m-block", site, format!("record {} lacks its M block", i + 1));
        }
        // exactly the geometry handed to the writer: raw bits, patch kinds, box
        if let Some(d) = diff(g, &r.geom, ty == 31, true) {
            ctx.fail("C02", "same-geometry", format!("{}:{}", site, type_name(ty)), format!("record {}: {}", i + 1, d));
        }
        if let Some(b) = &r.geom.bbox {
            check_shape_bbox(ctx, "record-box", g, b);
        }
    }
    if let Some(shx) = shx {
        if let Err(e) = check_index(shp, shx, &dec) {
            ctx.fail("C04", "index-bytes", site, e);
        }
    }
    check_header_bbox(ctx, "header-bytes", ty, written, &dec.bbox);
    Some(dec)
}

fn polygon_area_oracle(expected: &[Geom]) -> impl Fn(usize, usize) -> bool + '_ {
    move |si, ri| match exact_area(&expected[si].parts[ri].pts) {
        Some(a) => a != 0,
        None => false,
    }
}

/// All in-memory reading routes over (shp, shx) against `expected` (already normalised).
/// `props`: C01 clauses are reported under `prop_rt`; C04 behaviour clauses under "C04".
pub fn read_routes(ctx: &mut Ctx, prop_rt: &str, ty: i32, shp: &[u8], shx: Option<&[u8]>, expected: &[Geom], rstack: StackCfg, rplan: &Plan, raw_written: &[&Geom]) {
    let cap = item_cap(shp.len(), shx.map(|s| s.len()).unwrap_or(0));
    let area = polygon_area_oracle(expected);
    let n = expected.len();
    let mk = || World::with_data(rplan.clone(), shp.to_vec(), shx.map(|s| s.to_vec()).unwrap_or_default(), vec![]);
    let mut seq_no_index: Option<Vec<Item>> = None;
    let mut count_then_iter: Option<(usize, usize)> = None;

    for with_index in [false, true] {
        if with_index && shx.is_none() {
            continue;
        }
        let tag = if with_index { "shx" } else { "noshx" };
        let world = mk();
        let mut rdr = match open(&world, with_index, rstack) {
            Open::Ok(r) => r,
            Open::Err(e) => {
                ctx.fail(prop_rt, "open", tag, format!("open({}) failed: {:?}", tag, e));
                continue;
            }
            Open::Panic(p) => {
                ctx.fail(prop_rt, "panic", p.site(), format!("open({}): {}", tag, p.text()));
                continue;
            }
        };
        check_header_bbox(ctx, "reader-header", ty, raw_written, &hdr_bits(rdr.header()));
        // generic sequential
        match iter_generic(&mut rdr, cap) {
            Ok((items, capped)) => {
                expect_all(ctx, prop_rt, &format!("iter_shapes/{}", tag), &items, capped, expected, &area);
                if with_index {
                    if let Some(prev) = &seq_no_index {
                        if *prev != items {
                            ctx.fail("C04", "with-vs-without-index", "iter", "iteration with and without the index differ".to_string());
                        }
                    }
                } else {
                    seq_no_index = Some(items);
                }
            }
            Err(p) => ctx.fail(prop_rt, "panic", p.site(), format!("iter_shapes/{}: {}", tag, p.text())),
        }
        // typed sequential (second iteration on the same reader: re-open to stay within C01)
        let world2 = mk();
        if let Open::Ok(mut r2) = open(&world2, with_index, rstack) {
            match iter_typed(&mut r2, ty, cap) {
                Ok((items, capped)) => expect_all(ctx, prop_rt, &format!("iter_shapes_as/{}", tag), &items, capped, expected, &area),
                Err(p) => ctx.fail(prop_rt, "panic", p.site(), format!("iter_shapes_as/{}: {}", tag, p.text())),
            }
        }
        ctx.stats.absorb_world(&world2.borrow());
        // consuming read() and read_as()
        let world3 = mk();
        if let Open::Ok(r3) = open(&world3, with_index, rstack) {
            match read_generic(r3) {
                Ok(Ok(v)) => {
                    let items: Vec<Item> = v.into_iter().map(Ok).collect();
                    expect_all(ctx, prop_rt, &format!("read/{}", tag), &items, false, expected, &area);
                }
                Ok(Err(e)) => ctx.fail(prop_rt, "no-error", format!("read/{}", tag), format!("read() failed: {:?}", e)),
                Err(p) => ctx.fail(prop_rt, "panic", p.site(), format!("read/{}: {}", tag, p.text())),
            }
        }
        let world4 = mk();
        if let Open::Ok(r4) = open(&world4, with_index, rstack) {
            match read_typed(r4, ty) {
                Ok(Ok(v)) => {
                    let items: Vec<Item> = v.into_iter().map(Ok).collect();
                    expect_all(ctx, prop_rt, &format!("read_as/{}", tag), &items, false, expected, &area);
                }
                Ok(Err(e)) => {
                    if n > 0 {
                        ctx.fail(prop_rt, "no-error", format!("read_as/{}", tag), format!("read_as() failed: {:?}", e))
                    }
                }
                Err(p) => ctx.fail(prop_rt, "panic", p.site(), format!("read_as/{}: {}", tag, p.text())),
            }
        }
        // sequential reading through the Iterator adaptors a caller may use instead of next():
        // nth(1) gives shape 1, then step_by(2) (nth(1) again and again) shapes 2, 4, 6, ...
        if n >= 2 {
            let world6 = mk();
            if let Open::Ok(mut r6) = open(&world6, with_index, rstack) {
                let r = guarded(|| {
                    let mut it = r6.iter_shapes();
                    let mut got: Vec<Item> = Vec::new();
                    if let Some(x) = it.nth(1) {
                        got.push(x.map(|s| capture(&s)).map_err(|e| classify(&e)));
                        for x in it.step_by(2).take(cap) {
                            got.push(x.map(|s| capture(&s)).map_err(|e| classify(&e)));
                        }
                    }
                    got
                });
                match r {
                    Ok(got) => {
                        let mut want: Vec<usize> = vec![1];
                        want.extend((2..n).step_by(2));
                        let route = format!("nth+step_by/{}", tag);
                        if got.len() != want.len() {
                            ctx.fail(prop_rt, "same-count", route.clone(), format!("iter_shapes(): nth(1) then step_by(2) yielded {} items over {} shapes, expected {}", got.len(), n, want.len()));
                        }
                        for (g, i) in got.iter().zip(want.iter()) {
                            match g {
                                Ok(g) => {
                                    if let Some(d) = diff_read(&expected[*i], g, *i, &area) {
                                        let (clause, site) = shape_diff_class(&d, &route);
                                        ctx.fail(prop_rt, clause, site.to_string(), format!("nth(1) then step_by(2): the item expected to be shape {}: {}", i, d));
                                        break;
                                    }
                                }
                                Err(e) => {
                                    ctx.fail(prop_rt, "no-error", route.clone(), format!("nth(1) then step_by(2): shape {} came back as {:?}", i, e));
                                    break;
                                }
                            }
                        }
                    }
                    Err(p) => ctx.fail(prop_rt, "panic", p.site(), format!("nth+step_by/{}: {}", tag, p.text())),
                }
            }
            ctx.stats.absorb_world(&world6.borrow());
        }
        // Iterator::count(): the number of shapes; what a further iteration on the same reader then
        // yields must not depend on whether the index was supplied (C04: "iterates identically with
        // and without the index")
        {
            let world8 = mk();
            if let Open::Ok(mut r8) = open(&world8, with_index, rstack) {
                match guarded(|| {
                    let c = r8.iter_shapes().count();
                    let again = drain(r8.iter_shapes(), cap).0.len();
                    (c, again)
                }) {
                    Ok((c, again)) => {
                        if c != n {
                            ctx.fail(prop_rt, "same-count", format!("count/{}", tag), format!("iter_shapes().count() = {} over {} shapes", c, n));
                        }
                        match count_then_iter {
                            None => count_then_iter = Some((c, again)),
                            Some(prev) if prev != (c, again) => ctx.fail("C04", "with-vs-without-index", "count-then-iterate", format!("count() then a further iteration: ({}, {} items) without index, ({}, {} items) with it", prev.0, prev.1, c, again)),
                            _ => {}
                        }
                    }
                    Err(p) => ctx.fail(prop_rt, "panic", p.site(), format!("count/{}: {}", tag, p.text())),
                }
            }
            ctx.stats.absorb_world(&world8.borrow());
        }
        // Iterator::last(): the last shape, having consumed all
        if n >= 1 {
            let world7 = mk();
            if let Open::Ok(mut r7) = open(&world7, with_index, rstack) {
                match guarded(|| r7.iter_shapes().last().map(|x| x.map(|s| capture(&s)).map_err(|e| classify(&e)))) {
                    Ok(Some(Ok(g))) => {
                        if let Some(d) = diff_read(&expected[n - 1], &g, n - 1, &area) {
                            let route = format!("last/{}", tag);
                            let (clause, site) = shape_diff_class(&d, &route);
                            ctx.fail(prop_rt, clause, site.to_string(), format!("iter_shapes().last() is not shape {}: {}", n - 1, d));
                        }
                    }
                    Ok(other) => ctx.fail(prop_rt, "no-error", format!("last/{}", tag), format!("iter_shapes().last() over {} shapes = {:?}", n, other.map(|x| item_short(&x)))),
                    Err(p) => ctx.fail(prop_rt, "panic", p.site(), format!("last/{}: {}", tag, p.text())),
                }
            }
            ctx.stats.absorb_world(&world7.borrow());
        }
        if with_index {
            // C04 behaviour on a fresh reader: count, random access, size hints
            let world5 = mk();
            if let Open::Ok(mut r5) = open(&world5, true, rstack) {
                match r5.shape_count() {
                    Ok(c) if c == n => {}
                    other => ctx.fail("C04", "shape-count", "count", format!("shape_count() = {:?} for {} shapes", other.map_err(|e| classify(&e)), n)),
                }
                for i in 0..n {
                    for typed in [false, true] {
                        let got = if typed { nth_typed(&mut r5, ty, i) } else { nth_generic(&mut r5, i) };
                        let route = if typed { "read_nth_shape_as" } else { "read_nth_shape" };
                        match got {
                            Ok(Some(Ok(g))) => {
                                if let Some(d) = diff_read(&expected[i], &g, i, &area) {
                                    let (clause, site) = shape_diff_class(&d, route);
                                    ctx.fail(prop_rt, clause, site, format!("{}({}): {}", route, i, d));
                                }
                            }
                            Ok(other) => ctx.fail("C04", "random-access", route, format!("{}({}) = {:?}", route, i, other.map(|x| item_short(&x)))),
                            Err(p) => ctx.fail(prop_rt, "panic", p.site(), format!("{}({}): {}", route, i, p.text())),
                        }
                    }
                }
                for i in [n, n + 1, usize::MAX] {
                    match nth_generic(&mut r5, i) {
                        Ok(None) => {}
                        Ok(Some(x)) => ctx.fail("C04", "random-access-past-end", "read_nth_shape", format!("read_nth_shape({}) with {} shapes = {}", i, n, item_short(&x))),
                        Err(p) => ctx.fail("C04", "panic", p.site(), format!("read_nth_shape({}): {}", i, p.text())),
                    }
                }
                // size hints: after k next() calls exactly n-k remain
                let r = guarded(|| {
                    let mut it = r5.iter_shapes();
                    let mut hints = vec![it.size_hint()];
                    for _ in 0..n {
                        if it.next().is_none() {
                            break;
                        }
                        hints.push(it.size_hint());
                    }
                    hints
                });
                match r {
                    Ok(hints) => {
                        for (k, h) in hints.iter().enumerate() {
                            if *h != (n - k, Some(n - k)) {
                                ctx.fail("C04", "size-hint", "size_hint", format!("after {} items of {} size_hint() = {:?}", k, n, h));
                                break;
                            }
                        }
                    }
                    Err(p) => ctx.fail("C04", "panic", p.site(), format!("size_hint walk: {}", p.text())),
                }
            }
            ctx.stats.absorb_world(&world5.borrow());
        }
        ctx.stats.absorb_world(&world.borrow());
        ctx.stats.absorb_world(&world3.borrow());
        ctx.stats.absorb_world(&world4.borrow());
    }
}

/// C06, value level and type matrix, on a well-formed file of type `ty` with `n` records.
pub fn check_c06(ctx: &mut Ctx, ty: i32, shp: &[u8], n: usize, rstack: StackCfg, rplan: &Plan) {
    check_c06_on(ctx, ty, shp, n, rstack, rplan);
    // the same records under a header that names another type (a quarter of the files, chosen by
    // content): what a typed read returns, and the types its errors name, are about the records
    if n > 0 && shp.len() >= 100 && crate::prng::fnv(shp) % 4 == 0 {
        let other = TYPES[(TYPES.iter().position(|t| *t == ty).unwrap_or(0) + 3) % TYPES.len()];
        let mut m = shp.to_vec();
        m[32..36].copy_from_slice(&other.to_le_bytes());
        ctx.stats.reach("c06-header-names-another-type");
        check_c06_on(ctx, ty, &m, n, rstack, rplan);
    }
}

/// The types a mismatch error names, as a caller sees them in its message: for every ordered pair of
/// the 14 kinds, the text of `Error::MismatchShapeType` spells the requested and the actual type by
/// the names of the 14 kinds (and `ShapeType`'s own Display does).
fn check_c06_names(ctx: &mut Ctx) {
    for a in ALL_CODES {
        let Some(ta) = shapefile::ShapeType::from(a) else { continue };
        if ta.to_string() != type_name(a) {
            ctx.fail("C06", "type-name", type_name(a), format!("ShapeType {} (code {}) displays as {:?}", type_name(a), a, ta.to_string()));
        }
        for b in ALL_CODES {
            let Some(tb) = shapefile::ShapeType::from(b) else { continue };
            let msg = shapefile::Error::MismatchShapeType { requested: ta, actual: tb }.to_string();
            if !msg.contains(&format!("'{}'", type_name(a))) || !msg.contains(&format!("'{}'", type_name(b))) {
                ctx.fail("C06", "mismatch-error-names", type_name(a), format!("the mismatch error for requested {} / actual {} reads {:?}", type_name(a), type_name(b), msg));
                return;
            }
        }
    }
    ctx.stats.reach("c06-error-names-checked");
}

fn check_c06_on(ctx: &mut Ctx, ty: i32, shp: &[u8], n: usize, rstack: StackCfg, rplan: &Plan) {
    if crate::prng::fnv(shp) % 64 == 0 {
        check_c06_names(ctx);
    }
    // typed and generic routes read through the same (must-be-masked) transfer schedule
    let mk = || World::with_data(rplan.clone(), shp.to_vec(), vec![], vec![]);
    // generic read
    let w = mk();
    let Open::Ok(r) = open(&w, false, rstack) else { return };
    let Ok(Ok(shapes)) = read_generic_shapes(r) else { return };
    // type identity of each generic value
    for s in &shapes {
        let code = variant_code(s);
        let reported = s.shapetype() as i32;
        if reported != code {
            ctx.fail("C06", "shapetype-of-value", type_name(code), format!("Shape::{}.shapetype() reports {}", type_name(code), type_name(reported)));
        }
        let static_code = on_shape!(s, c => { fn st<S: shapefile::HasShapeType>(_: &S) -> i32 { S::shapetype() as i32 } st(c) }, 0);
        if static_code != code {
            ctx.fail("C06", "shapetype-of-type", type_name(code), format!("<{} as HasShapeType>::shapetype() = {}", type_name(code), type_name(static_code)));
        }
    }
    let generic_geoms: Vec<Geom> = shapes.iter().map(capture).collect();
    // typed read of the right type == generic + conversion
    for s_ty in TYPES {
        let w2 = mk();
        let Open::Ok(r2) = open(&w2, false, rstack) else { continue };
        let typed = read_typed(r2, s_ty);
        let w3 = mk();
        let Open::Ok(r3) = open(&w3, false, rstack) else { continue };
        let Ok(Ok(again)) = read_generic_shapes(r3) else { continue };
        let converted = convert_typed(again, s_ty);
        let pair = format!("{}<-{}", type_name(s_ty), type_name(ty));
        let tsite = type_name(ty).to_string();
        match (&typed, &converted) {
            (Ok(a), Ok(b)) => {
                if a != b {
                    ctx.fail("C06", "typed-vs-converted", tsite.clone(), format!("{}: read_as::<{}>() = {:?} but convert(read()) = {:?}", pair, type_name(s_ty), short_res(a), short_res(b)));
                }
                if s_ty == ty {
                    match a {
                        Ok(v) if *v == generic_geoms => {}
                        other => ctx.fail("C06", "typed-same-type", tsite.clone(), format!("{}: read_as of the file's own type = {:?}", pair, short_res(other))),
                    }
                } else if n > 0 {
                    let want = RErr::Mismatch { requested: s_ty, actual: ty };
                    if *a != Err(want.clone()) {
                        ctx.fail("C06", "mismatch-error-read", tsite.clone(), format!("{}: read_as::<{}>() on a {} file = {:?}", pair, type_name(s_ty), type_name(ty), short_res(a)));
                    }
                    if *b != Err(want) {
                        ctx.fail("C06", "mismatch-error-convert", tsite.clone(), format!("{}: convert_shapes_to_vec_of::<{}>() of {} shapes = {:?}", pair, type_name(s_ty), type_name(ty), short_res(b)));
                    }
                }
            }
            (Err(p), _) | (_, Err(p)) => ctx.fail("C06", "panic", p.site(), format!("{}: {}", pair, p.text())),
        }
    }
    // the bulk conversion of a vector of several kinds stops at its *first* mismatch: the file's own
    // shapes followed by two shapes of two other kinds, for every ordered pair of kinds of a small pool
    if shapes.len() <= 8 && TYPES.contains(&ty) {
        let pool = || -> Vec<Shape> {
            vec![
                Shape::NullShape,
                Shape::Point(shapefile::Point::new(1.0, 2.0)),
                Shape::PointM(shapefile::PointM::new(1.0, 2.0, 3.0)),
                Shape::Polyline(shapefile::Polyline::new(vec![shapefile::Point::new(0.0, 0.0), shapefile::Point::new(1.0, 1.0)])),
            ]
        };
        for xi in 0..4usize {
            for yi in 0..4usize {
                if xi == yi {
                    continue;
                }
                for lead in [true, false] {
                    let mut v: Vec<Shape> = if lead { shapes.iter().map(build_from_geom_shape).collect() } else { vec![] };
                    if !lead {
                        // one shape of the requested type in front, then the two others
                        if let Some(f) = shapes.first() {
                            v.push(build_from_geom_shape(f));
                        }
                    }
                    v.push(pool().swap_remove(xi));
                    v.push(pool().swap_remove(yi));
                    let codes: Vec<i32> = v.iter().map(variant_code).collect();
                    let want = codes.iter().copied().find(|c| *c != ty).map(|c| RErr::Mismatch { requested: ty, actual: c });
                    match convert_typed(v, ty) {
                        Ok(Ok(got)) => {
                            if want.is_some() {
                                ctx.fail("C06", "bulk-mixed-first-mismatch", type_name(ty), format!("convert_shapes_to_vec_of::<{}>() of kinds {:?} = Ok({} shapes)", type_name(ty), codes, got.len()));
                            }
                        }
                        Ok(Err(e)) => {
                            if Some(&e) != want.as_ref() {
                                ctx.fail("C06", "bulk-mixed-first-mismatch", type_name(ty), format!("convert_shapes_to_vec_of::<{}>() of kinds {:?} = Err({:?}), the first mismatch is {:?}", type_name(ty), codes, e, want));
                            }
                        }
                        Err(p) => ctx.fail("C06", "panic", p.site(), p.text()),
                    }
                }
            }
        }
        ctx.stats.reach("c06-bulk-mixed-kinds");
    }
    // a typed iteration over records of another type, continued past the first error, never yields a
    // value of the requested type, and every mismatch it reports names (S, T)
    if n > 0 {
        let cap = item_cap(shp.len(), 0);
        for s_ty in TYPES.iter().copied().filter(|t| *t != ty) {
            let w4 = mk();
            let Open::Ok(mut r4) = open(&w4, false, rstack) else { continue };
            match iter_typed(&mut r4, s_ty, cap) {
                Ok((items, capped)) => {
                    if capped {
                        ctx.fail("C06", "typed-iteration-terminates", type_name(ty), format!("iter_shapes_as::<{}> over a {} file exceeded the item cap", type_name(s_ty), type_name(ty)));
                    }
                    for (k, it) in items.iter().enumerate() {
                        match it {
                            Ok(g) => {
                                ctx.fail("C06", "typed-iteration-wrong-type-value", type_name(ty), format!("iter_shapes_as::<{}> over a {} file yielded a value at item {}: {}", type_name(s_ty), type_name(ty), k, g.short()));
                                break;
                            }
                            Err(RErr::Mismatch { requested, actual }) if *requested != s_ty || *actual != ty => {
                                ctx.fail("C06", "typed-iteration-mismatch-fields", type_name(ty), format!("iter_shapes_as::<{}> over a {} file, item {}: Mismatch {{ requested: {}, actual: {} }}", type_name(s_ty), type_name(ty), k, type_name(*requested), type_name(*actual)));
                                break;
                            }
                            Err(_) => {}
                        }
                    }
                    if items.is_empty() {
                        ctx.fail("C06", "typed-iteration-reports-mismatch", type_name(ty), format!("iter_shapes_as::<{}> over a {} file of {} records yielded nothing", type_name(s_ty), type_name(ty), n));
                    }
                }
                Err(p) => ctx.fail("C06", "panic", p.site(), format!("iter_shapes_as::<{}> over a {} file: {}", type_name(s_ty), type_name(ty), p.text())),
            }
        }
    }
    // concrete -> generic -> concrete is the identity; TryFrom into any other type names both types
    for s in shapes {
        let code = variant_code(&s);
        let before = capture(&s);
        for s_ty in TYPES {
            let again = build_from_geom_shape(&s);
            let r = guarded(|| on_type!(s_ty, S => S::try_from(again).map(|c| c.to_geom()).map_err(|e| classify(&e)), Err(RErr::InvalidShapeType(s_ty))));
            match r {
                Ok(Ok(g)) => {
                    if s_ty != code || g != before {
                        ctx.fail("C06", "tryfrom-identity", format!("{}<-{}", type_name(s_ty), type_name(code)), "TryFrom<Shape> returned a different value".to_string());
                    }
                }
                Ok(Err(e)) => {
                    if s_ty == code || e != (RErr::Mismatch { requested: s_ty, actual: code }) {
                        ctx.fail("C06", "tryfrom-error", format!("{}<-{}", type_name(s_ty), type_name(code)), format!("{}::try_from(Shape::{}) = Err({:?})", type_name(s_ty), type_name(code), e));
                    }
                }
                Err(p) => ctx.fail("C06", "panic", p.site(), p.text()),
            }
        }
    }
}

fn short_res(r: &Result<Vec<Geom>, RErr>) -> String {
    match r {
        Ok(v) => format!("Ok({} shapes)", v.len()),
        Err(e) => format!("Err({:?})", e),
    }
}

/// `Shape` has no Clone: rebuild an equal value by encoding nothing - go through the concrete
/// value's own Clone (all 13 concrete types are Clone).
pub fn build_from_geom_shape(s: &Shape) -> Shape {
    on_shape!(s, c => Shape::from(c.clone()), Shape::NullShape)
}

pub fn execute(scn: &RtScn, ctx: &mut Ctx) {
    let ty = scn.w.shapes.first().map(|s| s.ty).unwrap_or(0);
    let world = World::new(scn.wplan.clone());
    let run = run_writer(&world, &scn.w);
    if let Some(e) = &run.build_panic {
        ctx.stats.reach("void-build-panic");
        ctx.fail("HARNESS", "build", "ctor", e.clone());
        return;
    }
    ctx.stats.absorb_world(&world.borrow());
    let site = pattern(&scn.w);
    // every call of a fault-free history must succeed
    let mut first_write = true;
    for m in &run.marks {
        match &m.res {
            CallRes::Ok => {}
            CallRes::Err(e) => ctx.fail("C01", "write-ok", m.call.split('(').next().unwrap_or(""), format!("{} failed in a fault-free run: {:?}", m.call, e)),
            CallRes::Panic(msg, loc) => ctx.fail("C01", "panic", format!("panic:writer:{}", loc.rsplit('/').next().unwrap_or("").split(':').next().unwrap_or("")), format!("{} panicked: {} at {}", m.call, msg, loc)),
        }
        if let (Some(a), true, StackCfg::Direct) = (m.announced, m.res.is_ok(), scn.w.stack) {
            // C18 at the seam: the bytes the call put into the record area of the .shp device (at or
            // beyond byte 100; header bytes do not count) are the 8-byte record header, the 4-byte type
            // code and exactly the announced size. Direct stack only: below a buffer the device sees
            // the bytes of a call later.
            let wb = world.borrow();
            let record_bytes: u64 = wb.log[m.first_ev..m.end_ev].iter().filter(|e| e.dev as usize == SHP && e.kind == OpKind::Write && e.pos >= 100).map(|e| e.moved as u64).sum();
            if record_bytes != 12 + a as u64 {
                ctx.fail("C18", "bytes-at-seam", type_name(ty), format!("{}: {} bytes reached the record area of the .shp for an announced size of {} (+12)", m.call, record_bytes, a));
            }
        }
        let _ = first_write;
        first_write = false;
    }
    // C18 direct: write_to emits exactly size_in_bytes, also through a chunking device
    if let Ok(shapes) = build_all(&scn.w.shapes) {
        for (i, sh) in shapes.iter().enumerate() {
            let (ann, emitted) = on_shape!(sh, s => {
                let mut v: Vec<u8> = Vec::new();
                let r = s.write_to(&mut v);
                (s.size_in_bytes(), r.map(|_| v.len()).map_err(|e| classify(&e)))
            }, (0, Ok(0)));
            if emitted != Ok(ann) {
                ctx.fail("C18", "write_to-length", type_name(ty), format!("shape {}: size_in_bytes() = {} but write_to emitted {:?}", i, ann, emitted));
            }
        }
    }
    let w = world.borrow();
    let shp = w.data(SHP).to_vec();
    let shx = if scn.w.with_shx { Some(w.data(SHX).to_vec()) } else { None };
    drop(w);
    let written: Vec<&Geom> = run.written.iter().map(|i| &run.geoms[*i]).collect();
    // shape boxes as constructed (C05 a)
    for g in &written {
        if let Some(b) = &g.bbox {
            check_shape_bbox(ctx, "constructed-box", g, b);
        }
    }
    let dec = check_bytes(ctx, ty, &shp, shx.as_deref(), &written, &site);
    {
        // C18: the content length stored in each record header, found by walking the file with the
        // announced sizes themselves (independent of the stored lengths and of the decoder)
        let anns: Vec<usize> = run.marks.iter().filter(|m| m.res.is_ok()).filter_map(|m| m.announced).collect();
        let mut o = 100usize;
        for (i, a) in anns.iter().enumerate() {
            if o + 8 > shp.len() {
                ctx.fail("C18", "content-length-field", type_name(ty), format!("record {}: expected at offset {} from the announced sizes, but the file has {} bytes", i + 1, o, shp.len()));
                break;
            }
            let stored = i32::from_be_bytes([shp[o + 4], shp[o + 5], shp[o + 6], shp[o + 7]]);
            if stored as i64 != ((a + 4) / 2) as i64 {
                ctx.fail("C18", "content-length-field", type_name(ty), format!("record {} at offset {}: content length {} words stored for an announced size of {} bytes", i + 1, o, stored, a));
                break;
            }
            o += 8 + 4 + a;
        }
    }
    if let Some(dec) = &dec {
        // C18: stored content length = (announced + 4) / 2 words
        let anns: Vec<usize> = run.marks.iter().filter(|m| m.res.is_ok()).filter_map(|m| m.announced).collect();
        if anns.len() == dec.recs.len() {
            for (i, (a, r)) in anns.iter().zip(dec.recs.iter()).enumerate() {
                if r.content_words as usize != (a + 4) / 2 {
                    ctx.fail("C18", "content-length-field", type_name(ty), format!("record {}: content length {} words for an announced size of {}", i + 1, r.content_words, a));
                }
            }
        }
    }
    let expected: Vec<Geom> = written.iter().map(|g| g.normalised_for_read()).collect();
    read_routes(ctx, "C01", ty, &shp, shx.as_deref(), &expected, scn.rstack, &scn.rplan, &written);
    // the bytes produced by the last explicit finalize, read while the writer is still alive (what
    // the destinations hold when finalize returns, below any buffer): the shapes written until then
    if let Some((mi, m)) = run.marks.iter().enumerate().rev().find(|(_, m)| m.call == "finalize" && m.res.is_ok() && m.snap.is_some()) {
        let upto = run.marks[..mi].iter().filter(|m| m.call.starts_with("write(") && m.res.is_ok()).count();
        if upto > 0 && upto <= written.len() {
            if let Some((s_shp, s_shx)) = &m.snap {
                let exp_then: Vec<Geom> = expected[..upto].to_vec();
                let written_then: Vec<&Geom> = written[..upto].to_vec();
                ctx.stats.reach("read-after-finalize-before-drop");
                read_routes(ctx, "C01", ty, s_shp, if scn.w.with_shx { Some(&s_shx[..]) } else { None }, &exp_then, scn.rstack, &scn.rplan, &written_then);
            }
        }
    }
    if dec.is_some() && !written.is_empty() {
        check_c06(ctx, ty, &shp, written.len(), scn.rstack, &scn.rplan);
    }
    if scn.path {
        path_routes(ctx, scn, ty, &expected, &shp, shx.as_deref());
    }
    // distinct signature: type, part-shape signature, float classes are folded into the spec hash
    let sig = format!("{}|{:?}|{:?}|{}|{:?}", ty, scn.w.shapes.iter().map(|s| s.parts.iter().map(|p| p.pts.len()).collect::<Vec<_>>()).collect::<Vec<_>>(), scn.w.stack, site, scn.rstack);
    if !written.is_empty() {
        ctx.stats.distinct.insert(crate::prng::fnv_str(&sig));
    }
    if expected.iter().any(|g| g.parts.iter().any(|p| p.pts.iter().any(|v| v[3] == NO_DATA_BITS))) {
        ctx.stats.reach("m-normalised-or-nodata");
    }
}

/// By-path routes: the same program through ShapeWriter::from_path, read back by path.
fn path_routes(ctx: &mut Ctx, scn: &RtScn, ty: i32, expected: &[Geom], mem_shp: &[u8], mem_shx: Option<&[u8]>) {
    let dir = crate::scratch_dir();
    let h = crate::prng::fnv_str(&serde_json::to_string(&scn.w).unwrap_or_default());
    // a quarter of the by-path runs name the files without any directory component, relative to the
    // current directory (which is the scratch directory for the duration of the route)
    if h % 4 == 3 {
        if let Ok(old) = std::env::current_dir() {
            if std::env::set_current_dir(&dir).is_ok() {
                ctx.stats.reach("path-route-bare-file-name");
                path_routes_at(ctx, scn, ty, expected, mem_shp, mem_shx, std::path::PathBuf::from(format!("rt-{}", h)), h);
                let _ = std::env::set_current_dir(old);
                return;
            }
        }
    }
    path_routes_at(ctx, scn, ty, expected, mem_shp, mem_shx, dir.join(format!("rt-{}", h)), h);
}

#[allow(clippy::too_many_arguments)]
fn path_routes_at(ctx: &mut Ctx, scn: &RtScn, ty: i32, expected: &[Geom], mem_shp: &[u8], mem_shx: Option<&[u8]>, base: std::path::PathBuf, h: u64) {
    // the name the caller gives the .shp: lower case, upper case (data sets from case-insensitive
    // systems), mixed; the writer and the readers derive the sibling names from it
    let shp_path = base.with_extension(["shp", "SHP", "Shp"][(h % 3) as usize]);
    let area = polygon_area_oracle(expected);
    // the path is not fresh: longer files are already there and must be replaced entirely
    let mut old = mem_shp.to_vec();
    old.extend_from_slice(mem_shp);
    old.extend_from_slice(&[0xAB; 64]);
    let _ = std::fs::write(&shp_path, &old);
    let _ = std::fs::write(base.with_extension("shx"), &old);
    let r = guarded(|| -> Result<(), shapefile::Error> {
        let mut w = shapefile::ShapeWriter::from_path(&shp_path)?;
        let shapes = build_all(&scn.w.shapes).unwrap_or_default();
        for c in &scn.w.calls {
            match c {
                WCall::W(i) => on_shape!(&shapes[*i], s => w.write_shape(s)?, ()),
                WCall::Fin | WCall::FinRetry => w.finalize()?,
                WCall::Other(_) => {}
            }
        }
        match &scn.w.ending {
            Ending::Drop | Ending::PanicUnwind => {}
            Ending::FinDrop => w.finalize()?,
            Ending::WriteShapes(l) => {
                for i in l {
                    on_shape!(&shapes[*i], s => w.write_shape(s)?, ());
                }
            }
        }
        Ok(())
    });
    match r {
        Ok(Ok(())) => {}
        Ok(Err(e)) => {
            ctx.fail("C01", "path-write", "from_path", format!("ShapeWriter::from_path route failed: {:?}", classify(&e)));
            return;
        }
        Err(p) => {
            ctx.fail("C01", "panic", p.site(), p.text());
            return;
        }
    }
    ctx.stats.reach("path-route");
    let disk_shp = std::fs::read(&shp_path).unwrap_or_default();
    let disk_shx = std::fs::read(base.with_extension("shx")).unwrap_or_default();
    if disk_shp != mem_shp {
        ctx.fail("C01", "path-bytes", "shp", "the .shp created by path differs from the in-memory one".to_string());
    }
    if let Some(m) = mem_shx {
        if disk_shx != m {
            ctx.fail("C04", "path-bytes", "shx", "the .shx created by path differs from the in-memory one".to_string());
        }
    }
    for with_shx in [true, false] {
        if !with_shx {
            let _ = std::fs::remove_file(base.with_extension("shx"));
        }
        let tag = if with_shx { "path+shx" } else { "path-noshx" };
        let r = guarded(|| shapefile::read_shapes(&shp_path).map(|v| v.iter().map(capture).collect::<Vec<_>>()).map_err(|e| classify(&e)));
        match r {
            Ok(Ok(v)) => expect_all(ctx, "C01", &format!("read_shapes/{}", tag), &v.into_iter().map(Ok).collect::<Vec<_>>(), false, expected, &area),
            Ok(Err(e)) => ctx.fail("C01", "no-error", format!("read_shapes/{}", tag), format!("{:?}", e)),
            Err(p) => ctx.fail("C01", "panic", p.site(), p.text()),
        }
        let r = guarded(|| on_type!(ty, S => shapefile::read_shapes_as::<_, S>(&shp_path).map(|v| v.into_iter().map(|s| s.to_geom()).collect::<Vec<_>>()).map_err(|e| classify(&e)), Ok(vec![])));
        match r {
            Ok(Ok(v)) => expect_all(ctx, "C01", &format!("read_shapes_as/{}", tag), &v.into_iter().map(Ok).collect::<Vec<_>>(), false, expected, &area),
            Ok(Err(e)) => {
                if !expected.is_empty() {
                    ctx.fail("C01", "no-error", format!("read_shapes_as/{}", tag), format!("{:?}", e))
                }
            }
            Err(p) => ctx.fail("C01", "panic", p.site(), p.text()),
        }
        let r = guarded(|| -> Result<(Vec<Item>, Option<usize>, Vec<Option<Item>>), shapefile::Error> {
            let mut rd = shapefile::ShapeReader::from_path(&shp_path)?;
            let items = drain(rd.iter_shapes(), expected.len() + 16).0;
            let cnt = rd.shape_count().ok();
            let mut nth = vec![];
            if with_shx {
                for i in 0..=expected.len() {
                    nth.push(rd.read_nth_shape(i).map(|x| x.map(|s| capture(&s)).map_err(|e| classify(&e))));
                }
            }
            Ok((items, cnt, nth))
        });
        match r {
            Ok(Ok((items, cnt, nth))) => {
                expect_all(ctx, "C01", &format!("from_path.iter/{}", tag), &items, false, expected, &area);
                if with_shx {
                    if cnt != Some(expected.len()) {
                        ctx.fail("C04", "shape-count", "path", format!("shape_count by path = {:?}", cnt));
                    }
                    for (i, x) in nth.iter().enumerate() {
                        let ok = if i < expected.len() { matches!(x, Some(Ok(g)) if diff_read(&expected[i], g, i, &area).map_or(true, |d| d.starts_with(ROUNDING_MARK))) } else { x.is_none() };
                        if !ok {
                            ctx.fail("C04", "random-access", "path", format!("read_nth_shape({}) by path = {:?}", i, x.as_ref().map(item_short)));
                            // random access by index on files opened by path is one of C01's reading routes
                            if i < expected.len() {
                                ctx.fail("C01", "same-shape", "read_nth_shape/path", format!("read_nth_shape({}) by path (the .shx written next to {:?}) = {:?}", i, shp_path.file_name(), x.as_ref().map(item_short)));
                            }
                        }
                    }
                } else if cnt.is_some() {
                    ctx.fail("C04", "shape-count", "path-noshx", "shape_count without an index file answered".to_string());
                }
            }
            Ok(Err(e)) => ctx.fail("C01", "no-error", format!("from_path/{}", tag), format!("{:?}", classify(&e))),
            Err(p) => ctx.fail("C01", "panic", p.site(), p.text()),
        }
    }
    let _ = std::fs::remove_file(&shp_path);
    let _ = std::fs::remove_file(base.with_extension("shx"));
}

/// Deterministic sweep: unit = type index; parts 1..=6 x points 1..=8 x stacks x index.
pub fn grid_unit(unit: u64, ctx: &mut Ctx, ctl: &mut crate::scn::UnitCtl) {
    use crate::scn::Scenario;
    let ty = TYPES[unit as usize % 13];
    if is_polygon(ty) {
        // rings whose exact signed area is tiny but not zero (sides of 2^-30, 2^-20, 2^-10 around
        // (10, 10)), declared inner and outer, in both orientations: the role is kept
        for (k, e) in [30i32, 20, 10].iter().enumerate() {
            let d = (2.0f64).powi(-*e);
            let v = |x: f64, y: f64| -> V { [x.to_bits(), y.to_bits(), 1f64.to_bits(), 2f64.to_bits()] };
            let big = Part { kind: 0, pts: vec![v(0.0, 0.0), v(0.0, 40.0), v(40.0, 40.0), v(40.0, 0.0), v(0.0, 0.0)] };
            let ccw = vec![v(10.0, 10.0), v(10.0 + d, 10.0), v(10.0 + d, 10.0 + d), v(10.0, 10.0 + d), v(10.0, 10.0)];
            let cw: Vec<V> = ccw.iter().rev().copied().collect();
            // for the smallest side also a sliver whose x coordinates are 0, 1, 2 units of the smallest subnormal
            let u = f64::from_bits(1);
            let sliver = vec![v(0.0, 0.5), v(-u, 0.5), v(-2.0 * u, 0.5), v(-2.0 * u, -0.5), v(0.0, 0.5)];
            let sliver_rev: Vec<V> = sliver.iter().rev().copied().collect();
            let mut variants = vec![(1, ccw.clone()), (1, cw.clone()), (0, ccw), (0, cw)];
            if k == 0 {
                variants.extend([(1, sliver.clone()), (1, sliver_rev.clone()), (0, sliver), (0, sliver_rev)]);
            }
            for (kind, pts) in variants {
                let shapes = vec![ShapeSpec { ty, parts: vec![big.clone(), Part { kind, pts }], ctor: (k % 3) as u8 }];
                let scn = RtScn { w: WProg { calls: vec![WCall::W(0)], shapes, others: vec![], ending: Ending::Drop, with_shx: k % 2 == 0, stack: StackCfg::Direct }, wplan: Plan::default(), rstack: StackCfg::Direct, rplan: Plan::default(), path: false };
                if !ctl.before_case(|| Scenario::Rt(scn.clone())) {
                    continue;
                }
                ctx.stats.evaluations += 1;
                ctx.stats.reach("ring-of-tiny-nonzero-area");
                execute(&scn, ctx);
                ctl.after_case(ctx, || Scenario::Rt(scn.clone()));
            }
        }
    }
    let (pmax, nmax) = if is_point(ty) { (1, 1) } else if is_multipoint(ty) { (1, 8) } else { (6, 8) };
    let nmin = if is_polyline(ty) { 2 } else { 1 };
    for nparts in 1..=pmax {
        for npts in nmin..=nmax {
            for (si, stack) in [StackCfg::Direct, StackCfg::Buf(7), StackCfg::Buf(8192), StackCfg::WriteBack].iter().enumerate() {
                for with_shx in [true, false] {
                    let shapes = vec![
                        grid_spec(ty, nparts, npts, 1),
                        grid_spec(ty, (nparts % pmax) + 1, npts, 40),
                        grid_spec(ty, nparts, if npts < nmax { npts + 1 } else { nmin }, 80),
                    ];
                    let scn = RtScn {
                        w: WProg {
                            shapes,
                            others: vec![],
                            calls: vec![WCall::W(0), WCall::W(1), WCall::Fin, WCall::W(2)],
                            ending: if si == 1 { Ending::FinDrop } else { Ending::Drop },
                            with_shx,
                            stack: *stack,
                        },
                        wplan: Plan::default(),
                        rstack: if si == 2 { StackCfg::Buf(16) } else { StackCfg::Direct },
                        rplan: Plan::default(),
                        path: nparts == 1 && npts == nmin && si == 0 && with_shx,
                    };
                    if !ctl.before_case(|| Scenario::Rt(scn.clone())) {
                        continue;
                    }
                    ctx.stats.evaluations += 1;
                    execute(&scn, ctx);
                    ctl.after_case(ctx, || Scenario::Rt(scn.clone()));
                }
            }
        }
    }
}

/// Deterministic "large" sweep around internal limits (pre-allocation caps, buffer sizes):
/// many records per file, many parts per shape, many points per part.
pub fn large_unit(unit: u64, ctx: &mut Ctx, ctl: &mut crate::scn::UnitCtl) {
    use crate::scn::Scenario;
    let mut scns: Vec<RtScn> = Vec::new();
    let mk = |shapes: Vec<ShapeSpec>, with_shx: bool, stack: StackCfg, rstack: StackCfg, path: bool| RtScn {
        w: WProg { calls: (0..shapes.len()).map(WCall::W).collect(), shapes, others: vec![], ending: Ending::Drop, with_shx, stack },
        wplan: Plan::default(),
        rstack,
        rplan: Plan::default(),
        path,
    };
    match unit {
        0 => {
            // many records: around 1024, 4096 and beyond
            for (i, n) in [1023usize, 1024, 1025, 4095, 4096, 4097, 10_000].iter().enumerate() {
                let ty = [1, 21, 11][i % 3];
                let shapes: Vec<ShapeSpec> = (0..*n).map(|k| grid_spec(ty, 1, 1, k)).collect();
                scns.push(mk(shapes, true, StackCfg::Buf(8192), if i % 2 == 0 { StackCfg::Direct } else { StackCfg::Buf(8192) }, *n == 4097));
            }
        }
        1 => {
            // many parts per shape
            for (i, nparts) in [1023usize, 1024, 1025, 1500, 2049].iter().enumerate() {
                let ty = [3, 5, 31, 13, 25][i % 5];
                let shapes = vec![grid_spec(ty, *nparts, if is_polygon(ty) { 3 } else { 2 }, 7), grid_spec(ty, 2, 3, 90)];
                scns.push(mk(shapes, i % 2 == 0, StackCfg::Direct, StackCfg::Direct, false));
            }
        }
        3 => {
            // one part (or multipoint) of around 2^16 points, Z and M types: block-wise writers
            for (i, npts) in [65_535usize, 65_536, 65_537, 70_000].iter().enumerate() {
                let ty = [13, 28, 31, 25][i % 4];
                let shapes = vec![grid_spec(ty, 1, *npts, 11), grid_spec(ty, 1, 3, 60)];
                scns.push(mk(shapes, i % 2 == 1, StackCfg::Buf(8192), StackCfg::Buf(8192), false));
            }
            let shapes = vec![grid_spec(18, 1, 3, 60), grid_spec(18, 1, 66_000, 11)];
            scns.push(mk(shapes, true, StackCfg::Buf(8192), StackCfg::Buf(8192), false));
        }
        4 => {
            // one part beyond 2^17 and 2^18 points
            scns.push(mk(vec![grid_spec(13, 1, 131_077, 11), grid_spec(13, 1, 3, 60)], true, StackCfg::Buf(8192), StackCfg::Buf(8192), false));
            scns.push(mk(vec![grid_spec(3, 1, 2, 60), grid_spec(3, 2, 131_073, 11)], false, StackCfg::Buf(8192), StackCfg::Buf(8192), false));
            scns.push(mk(vec![grid_spec(28, 1, 262_149, 11)], true, StackCfg::Buf(8192), StackCfg::Buf(8192), false));
        }
        6 => {
            // many records around 2^16 and 2^17 (a writer may do something every so many records); the
            // last shape lies far away from all others, so that it alone sets the header's extremes
            for (i, n) in [65_535usize, 65_536, 65_537, 70_000, 131_072].iter().enumerate() {
                let ty = [1, 11, 21, 1, 11][i];
                let mut shapes: Vec<ShapeSpec> = (0..*n).map(|k| grid_spec(ty, 1, 1, k % 1000)).collect();
                if let Some(last) = shapes.last_mut() {
                    last.parts[0].pts[0] = [(-7.5e8f64).to_bits(), 6.5e8f64.to_bits(), 5.5e8f64.to_bits(), (-4.5e8f64).to_bits()];
                }
                scns.push(mk(shapes, i % 2 == 0, StackCfg::Buf(8192), StackCfg::Buf(8192), false));
            }
        }
        7 => {
            // every multi-vertex type: one part of 2^16 + 7 points (not a multiple of any block size a
            // writer may use) followed by a small record
            for (i, ty) in [3, 5, 8, 13, 15, 18, 23, 25, 28, 31].iter().enumerate() {
                let shapes = vec![grid_spec(*ty, 1, 65_543, 11), grid_spec(*ty, 1, 3, 60)];
                scns.push(mk(shapes, i % 2 == 0, StackCfg::Buf(8192), StackCfg::Buf(8192), false));
            }
        }
        5 => {
            // thorough tier only: one part beyond 2^20 points (a 32 MiB record)
            scns.push(mk(vec![grid_spec(15, 1, 1_048_581, 11), grid_spec(15, 1, 4, 60)], true, StackCfg::Buf(8192), StackCfg::Buf(8192), false));
        }
        _ => {
            // many points per part
            for (i, npts) in [1023usize, 1024, 1025, 3000, 8193].iter().enumerate() {
                for ty in [[3, 8, 18], [23, 28, 15], [31, 5, 13]][i % 3] {
                    let shapes = vec![grid_spec(ty, 1, *npts, 11), grid_spec(ty, 1, 3, 60)];
                    scns.push(mk(shapes, i % 2 == 1, StackCfg::Buf(64), StackCfg::Buf(4096), false));
                }
            }
        }
    }
    for scn in scns {
        if !ctl.before_case(|| Scenario::Rt(scn.clone())) {
            continue;
        }
        ctx.stats.evaluations += 1;
        ctx.stats.reach("large-scenario");
        execute(&scn, ctx);
        ctl.after_case(ctx, || Scenario::Rt(scn.clone()));
    }
}


// ---------------------------------------------------------------------------------------------
// C05 on one very large multi-vertex shape (millions of points, generated procedurally): the box
// the shape carries, the box stored in its record and the header box are the extremes of its
// vertices - the last vertex, which alone holds the maxima, included.

#[derive(Clone, Debug, serde::Serialize, serde::Deserialize)]
pub struct BigBoxScn {
    /// 8 = Multipoint, 3 = Polyline (one part), 28 = MultipointM
    pub ty: i32,
    pub npts: u32,
    /// not empty: instead of one large shape, a small multi-part shape of type `ty` with this many
    /// points in each part (zeros allowed), handed to the public constructor as it is - if the
    /// constructor accepts it, its boxes are judged
    #[serde(default)]
    pub degenerate: Vec<u32>,
}

/// Degenerate part lists (empty first / middle / last part, one-point parts) away from the origin:
/// some constructors refuse them by panicking (not judged here), some build a shape - whose box must
/// then be the extremes of its vertices, in the shape, in its record and in the header.
fn execute_degenerate(scn: &BigBoxScn, ctx: &mut Ctx) {
    let ty = scn.ty;
    if !TYPES.contains(&ty) || is_point(ty) || scn.degenerate.len() > 8 || scn.degenerate.iter().any(|n| *n > 16) {
        ctx.fail("HARNESS", "invalid-scenario", "big-box", "bad parameters".to_string());
        return;
    }
    let mut c = 0usize;
    let parts: Vec<Part> = scn
        .degenerate
        .iter()
        .enumerate()
        .map(|(pi, n)| {
            let pts = (0..*n as usize)
                .map(|j| {
                    c += 1;
                    [(10.0 + (c % 7) as f64 + (j * j) as f64).to_bits(), (20.0 + ((c * 3) % 5) as f64 + j as f64).to_bits(), if has_z(ty) { (30.0 + (c % 4) as f64).to_bits() } else { 0 }, if has_m(ty) { (1.0 + (c % 3) as f64).to_bits() } else { 0 }]
                })
                .collect();
            Part { kind: if is_polygon(ty) { 0 } else if ty == 31 { (pi % 6) as i32 } else { -1 }, pts }
        })
        .collect();
    let spec = ShapeSpec { ty, parts, ctor: 0 };
    let Ok(shape) = guarded(|| build(&spec)) else {
        ctx.stats.reach("degenerate-part-list-refused-by-the-constructor");
        return;
    };
    ctx.stats.reach("degenerate-part-list-built");
    let g = capture(&shape);
    if let Some(b) = &g.bbox {
        check_shape_bbox(ctx, "degenerate-ctor", &g, b);
    }
    // written: the record's box and the header's
    let r = guarded(|| -> Result<Vec<u8>, shapefile::Error> {
        let mut out = std::io::Cursor::new(Vec::<u8>::new());
        {
            let mut w = shapefile::ShapeWriter::new(&mut out);
            crate::on_shape!(&shape, s => w.write_shape(s)?, ());
            w.finalize()?;
        }
        Ok(out.into_inner())
    });
    match r {
        Err(p) => ctx.fail("C05", "panic", p.site(), format!("writing a {} built from parts of {:?} points: {}", type_name(ty), scn.degenerate, p.text())),
        Ok(Err(e)) => ctx.fail("C05", "write-ok", "degenerate-ctor", format!("writing a {} built from parts of {:?} points: {:?}", type_name(ty), scn.degenerate, classify(&e))),
        Ok(Ok(bytes)) => {
            if bytes.len() >= 100 && g.parts.iter().any(|p| !p.pts.is_empty()) {
                let mut hdr = [0u64; 8];
                for (k, h) in hdr.iter_mut().enumerate() {
                    *h = u64::from_le_bytes(bytes[36 + 8 * k..44 + 8 * k].try_into().unwrap());
                }
                check_header_bbox(ctx, "degenerate-ctor", ty, &[&g], &hdr);
            }
        }
    }
}

pub fn execute_bigbox(scn: &BigBoxScn, ctx: &mut Ctx) {
    if !scn.degenerate.is_empty() {
        execute_degenerate(scn, ctx);
        return;
    }
    let n = scn.npts as usize;
    if n < 4 || n > 40_000_000 || ![8, 3, 28].contains(&scn.ty) {
        ctx.fail("HARNESS", "invalid-scenario", "big-box", "bad parameters".to_string());
        return;
    }
    // x in [1, 2), y in [1.0009765625, 2): both grow and wrap; the first vertex holds the minima, the
    // last one the maxima (5, 7) and, for M, the only measure above 3
    let coord = |i: usize| -> (f64, f64, f64) {
        if i == 0 {
            (1.0, 1.0009765625, 0.5)
        } else if i == n - 1 {
            (5.0, 7.0, 9.0)
        } else {
            (1.0 + ((i % 1023) + 1) as f64 / 1024.0, 1.0009765625 + ((i % 1021) + 1) as f64 / 1024.0, 1.0 + (i % 7) as f64 / 4.0)
        }
    };
    let want: [f64; 6] = [1.0, 1.0009765625, 5.0, 7.0, 0.5, 9.0];
    let r = guarded(|| -> Result<(Vec<f64>, Vec<u8>), shapefile::Error> {
        let mut out = std::io::Cursor::new(Vec::<u8>::with_capacity(128 + 24 * n));
        let carried: Vec<f64>;
        {
            let mut w = shapefile::ShapeWriter::new(&mut out);
            match scn.ty {
                8 => {
                    let s = shapefile::Multipoint::new((0..n).map(|i| { let c = coord(i); shapefile::Point::new(c.0, c.1) }).collect());
                    carried = vec![s.bbox().min.x, s.bbox().min.y, s.bbox().max.x, s.bbox().max.y];
                    w.write_shape(&s)?;
                }
                3 => {
                    let s = shapefile::Polyline::new((0..n).map(|i| { let c = coord(i); shapefile::Point::new(c.0, c.1) }).collect());
                    carried = vec![s.bbox().min.x, s.bbox().min.y, s.bbox().max.x, s.bbox().max.y];
                    w.write_shape(&s)?;
                }
                _ => {
                    let s = shapefile::MultipointM::new((0..n).map(|i| { let c = coord(i); shapefile::PointM::new(c.0, c.1, c.2) }).collect());
                    carried = vec![s.bbox().min.x, s.bbox().min.y, s.bbox().max.x, s.bbox().max.y, s.bbox().min.m, s.bbox().max.m];
                    w.write_shape(&s)?;
                }
            }
            w.finalize()?;
        }
        let mut bytes = out.into_inner();
        bytes.truncate(100 + 12 + 32 + 64);
        Ok((carried, bytes))
    });
    match r {
        Err(p) => ctx.fail("C05", "panic", p.site(), format!("a {} of {} points: {}", type_name(scn.ty), n, p.text())),
        Ok(Err(e)) => ctx.fail("C05", "write-ok", "big-box", format!("a {} of {} points: {:?}", type_name(scn.ty), n, classify(&e))),
        Ok(Ok((carried, bytes))) => {
            let f = |o: usize| f64::from_le_bytes(bytes[o..o + 8].try_into().unwrap());
            let ok4 = |v: &[f64]| v[0] == want[0] && v[1] == want[1] && v[2] == want[2] && v[3] == want[3];
            if !ok4(&carried) || (scn.ty == 28 && (carried[4] != want[4] || carried[5] != want[5])) {
                ctx.fail("C05", "constructed-box", format!("big:{}", type_name(scn.ty)), format!("a {} of {} points whose last vertex holds the maxima carries the box {:?}, expected {:?}", type_name(scn.ty), n, carried, want));
            }
            let rec: Vec<f64> = (0..4).map(|k| f(112 + 8 * k)).collect();
            if !ok4(&rec) {
                ctx.fail("C05", "record-box", format!("big:{}", type_name(scn.ty)), format!("a {} of {} points: the record stores the box {:?}, expected {:?}", type_name(scn.ty), n, rec, &want[..4]));
            }
            let hdr: Vec<f64> = (0..4).map(|k| f(36 + 8 * k)).collect();
            if !ok4(&hdr) || (scn.ty == 28 && (f(84) != want[4] || f(92) != want[5])) {
                ctx.fail("C05", "header-bytes", format!("big:{}", type_name(scn.ty)), format!("a {} of {} points: the header stores x/y {:?} and m [{}, {}], expected {:?}", type_name(scn.ty), n, hdr, f(84), f(92), want));
            }
            ctx.stats.reach("box-of-a-shape-of-millions-of-points");
        }
    }
    ctx.stats.distinct.insert(crate::prng::fnv_str(&format!("bigbox|{}|{}", scn.ty, scn.npts)));
}

/// unit 0 (quick and thorough): 8 Mi + 2 and 8 Mi + 3 points; unit 1 (thorough): 16 Mi + 2, 4 Mi + 2.
pub fn bigbox_unit(unit: u64, ctx: &mut Ctx, ctl: &mut crate::scn::UnitCtl) {
    use crate::scn::Scenario;
    if unit == 0 {
        // the degenerate part lists first (cheap): 10 multi-part types x 12 part lists
        for ty in TYPES.iter().copied().filter(|t| !is_point(*t) && ![8, 18, 28].contains(t)) {
            for list in [vec![0u32, 3], vec![3, 0], vec![0, 0, 4], vec![0, 4, 0, 3], vec![1, 3], vec![3, 1], vec![0, 1, 2], vec![2, 0, 2], vec![0], vec![1], vec![0, 1], vec![4, 4, 0]] {
                let scn = BigBoxScn { ty, npts: 0, degenerate: list };
                if !ctl.before_case(|| Scenario::BigBox(scn.clone())) {
                    continue;
                }
                ctx.stats.evaluations += 1;
                execute_bigbox(&scn, ctx);
                ctl.after_case(ctx, || Scenario::BigBox(scn.clone()));
            }
        }
    }
    let cases: Vec<(i32, u32)> = if unit == 0 { vec![(8, (8 << 20) + 2), (3, (8 << 20) + 3)] } else { vec![(28, (16 << 20) + 2), (8, (4 << 20) + 2), (3, (2 << 20) + 2)] };
    for (ty, npts) in cases {
        let scn = BigBoxScn { ty, npts, degenerate: vec![] };
        if !ctl.before_case(|| Scenario::BigBox(scn.clone())) {
            continue;
        }
        ctx.stats.evaluations += 1;
        execute_bigbox(&scn, ctx);
        ctl.after_case(ctx, || Scenario::BigBox(scn.clone()));
    }
}


// ---------------------------------------------------------------------------------------------
// C18 on one shape of more than 2^26 points (more than 1 GiB of x,y): announced size = bytes emitted
// = content length stored by the writer. Nothing is kept but a count and the first bytes.

/// Keeps the first 256 bytes, counts everything.
struct HeadSink {
    head: Vec<u8>,
    pos: u64,
    len: u64,
}
impl std::io::Write for HeadSink {
    fn write(&mut self, buf: &[u8]) -> std::io::Result<usize> {
        let p = self.pos as usize;
        if p < 256 {
            let n = buf.len().min(256 - p);
            if self.head.len() < p + n {
                self.head.resize(p + n, 0);
            }
            self.head[p..p + n].copy_from_slice(&buf[..n]);
        }
        self.pos += buf.len() as u64;
        self.len = self.len.max(self.pos);
        Ok(buf.len())
    }
    fn flush(&mut self) -> std::io::Result<()> {
        Ok(())
    }
}
impl std::io::Seek for HeadSink {
    fn seek(&mut self, to: std::io::SeekFrom) -> std::io::Result<u64> {
        let t: i128 = match to {
            std::io::SeekFrom::Start(n) => n as i128,
            std::io::SeekFrom::End(d) => self.len as i128 + d as i128,
            std::io::SeekFrom::Current(d) => self.pos as i128 + d as i128,
        };
        if t < 0 {
            return Err(std::io::Error::new(std::io::ErrorKind::InvalidInput, "seek before start"));
        }
        self.pos = t as u64;
        Ok(self.pos)
    }
}

#[derive(Clone, Debug, serde::Serialize, serde::Deserialize)]
pub struct BigEmitScn {
    /// 8 = Multipoint, 28 = MultipointM
    pub ty: i32,
    pub npts: u32,
}

pub fn execute_bigemit(scn: &BigEmitScn, ctx: &mut Ctx) {
    use shapefile::record::WritableShape;
    let n = scn.npts as usize;
    if n < 4 || n > 90_000_000 || ![8, 28].contains(&scn.ty) {
        ctx.fail("HARNESS", "invalid-scenario", "big-emit", "bad parameters".to_string());
        return;
    }
    let r = guarded(|| -> Result<(usize, u64, Vec<u8>, u64), shapefile::Error> {
        let mut count = HeadSink { head: Vec::new(), pos: 0, len: 0 };
        let mut sink = HeadSink { head: Vec::new(), pos: 0, len: 0 };
        let announced;
        if scn.ty == 8 {
            let s = shapefile::Multipoint::new((0..n).map(|i| shapefile::Point::new((i % 4096) as f64, (i % 1021) as f64)).collect());
            announced = s.size_in_bytes();
            s.write_to(&mut count)?;
            let mut w = shapefile::ShapeWriter::new(&mut sink);
            w.write_shape(&s)?;
            w.finalize()?;
        } else {
            let s = shapefile::MultipointM::new((0..n).map(|i| shapefile::PointM::new((i % 4096) as f64, (i % 1021) as f64, (i % 7) as f64)).collect());
            announced = s.size_in_bytes();
            s.write_to(&mut count)?;
            let mut w = shapefile::ShapeWriter::new(&mut sink);
            w.write_shape(&s)?;
            w.finalize()?;
        }
        Ok((announced, count.len, sink.head.clone(), sink.len))
    });
    match r {
        Err(p) => ctx.fail("C18", "panic", p.site(), format!("a {} of {} points: {}", type_name(scn.ty), n, p.text())),
        Ok(Err(e)) => ctx.fail("C18", "write-ok", "big-emit", format!("a {} of {} points: {:?}", type_name(scn.ty), n, classify(&e))),
        Ok(Ok((announced, emitted, head, file_len))) => {
            if emitted != announced as u64 {
                ctx.fail("C18", "write_to-length", format!("big:{}", type_name(scn.ty)), format!("a {} of {} points announces {} bytes, write_to emitted {}", type_name(scn.ty), n, announced, emitted));
            }
            let words = if head.len() >= 108 { i32::from_be_bytes([head[104], head[105], head[106], head[107]]) as i64 } else { -1 };
            if words != ((announced + 4) / 2) as i64 {
                ctx.fail("C18", "content-length-field", format!("big:{}", type_name(scn.ty)), format!("a {} of {} points announcing {} bytes: the record header stores {} content words", type_name(scn.ty), n, announced, words));
            }
            if file_len != 100 + 12 + announced as u64 {
                ctx.fail("C18", "bytes-at-seam", format!("big:{}", type_name(scn.ty)), format!("a {} of {} points announcing {} bytes: the .shp has {} bytes", type_name(scn.ty), n, announced, file_len));
            }
            ctx.stats.reach("shape-of-more-than-2^26-points-emitted");
        }
    }
    ctx.stats.distinct.insert(crate::prng::fnv_str(&format!("bigemit|{}|{}", scn.ty, scn.npts)));
}

/// unit 0: a Multipoint of 2^26 + 3 points (the x,y block alone is just over 1 GiB).
pub fn bigemit_unit(unit: u64, ctx: &mut Ctx, ctl: &mut crate::scn::UnitCtl) {
    use crate::scn::Scenario;
    let cases: Vec<(i32, u32)> = if unit == 0 { vec![(8, (1 << 26) + 3)] } else { vec![(28, (1 << 26) + 5)] };
    for (ty, npts) in cases {
        let scn = BigEmitScn { ty, npts };
        if !ctl.before_case(|| Scenario::BigEmit(scn.clone())) {
            continue;
        }
        ctx.stats.evaluations += 1;
        execute_bigemit(&scn, ctx);
        ctl.after_case(ctx, || Scenario::BigEmit(scn.clone()));
    }
}
