//! The harness's own geometry value (`Geom`), the recipe for building a library shape through
//! the public constructors (`ShapeSpec`), and the capture of a library shape through its
//! public accessors. Comparison is always by bit pattern.

use serde::{Deserialize, Serialize};
use shapefile::record::polygon::GenericPolygon;
use shapefile::record::polyline::GenericPolyline;
use shapefile::record::multipoint::GenericMultipoint;
use shapefile::*;

/// The 13 non-null type codes, in a fixed order.
pub const TYPES: [i32; 13] = [1, 3, 5, 8, 11, 13, 15, 18, 21, 23, 25, 28, 31];
pub const ALL_CODES: [i32; 14] = [0, 1, 3, 5, 8, 11, 13, 15, 18, 21, 23, 25, 28, 31];

pub const NO_DATA_BITS: u64 = 0xC807_8287_F49C_4A1D; // -10e38 = -1e39 (asserted at start-up against shapefile::NO_DATA)

pub fn type_name(code: i32) -> &'static str {
    match code {
        0 => "NullShape",
        1 => "Point",
        3 => "Polyline",
        5 => "Polygon",
        8 => "Multipoint",
        11 => "PointZ",
        13 => "PolylineZ",
        15 => "PolygonZ",
        18 => "MultipointZ",
        21 => "PointM",
        23 => "PolylineM",
        25 => "PolygonM",
        28 => "MultipointM",
        31 => "Multipatch",
        _ => "?",
    }
}

pub fn has_z(code: i32) -> bool {
    matches!(code, 11 | 13 | 15 | 18 | 31)
}
/// points of this type carry a measure
pub fn has_m(code: i32) -> bool {
    matches!(code, 11 | 13 | 15 | 18 | 21 | 23 | 25 | 28 | 31)
}
pub fn is_point(code: i32) -> bool {
    matches!(code, 1 | 11 | 21)
}
pub fn is_multipoint(code: i32) -> bool {
    matches!(code, 8 | 18 | 28)
}
pub fn is_polygon(code: i32) -> bool {
    matches!(code, 5 | 15 | 25)
}
pub fn is_polyline(code: i32) -> bool {
    matches!(code, 3 | 13 | 23)
}
pub fn is_multipart(code: i32) -> bool {
    matches!(code, 3 | 5 | 13 | 15 | 23 | 25 | 31)
}

/// One vertex: bit patterns of x, y, z, m (unused dimensions are 0).
pub type V = [u64; 4];

#[derive(Clone, Debug, PartialEq, Eq, Hash, Serialize, Deserialize)]
pub struct Part {
    /// multipatch: patch kind 0..=5; polygon: 0 outer, 1 inner, -1 unknown; others: -1
    pub kind: i32,
    pub pts: Vec<V>,
}

#[derive(Clone, Debug, PartialEq, Eq, Hash, Serialize, Deserialize)]
pub struct Geom {
    pub ty: i32,
    pub parts: Vec<Part>,
    /// xmin, ymin, xmax, ymax, zmin, zmax, mmin, mmax (bit patterns); None for points and null
    pub bbox: Option<[u64; 8]>,
}

impl Geom {
    pub fn null() -> Geom {
        Geom { ty: 0, parts: vec![], bbox: None }
    }
    pub fn n_points(&self) -> usize {
        self.parts.iter().map(|p| p.pts.len()).sum()
    }
    /// what a reader of the library must report for this written/encoded geometry:
    /// in multi-vertex shapes a measure <= NO_DATA or NaN comes back as exactly NO_DATA.
    pub fn normalised_for_read(&self) -> Geom {
        let mut g = self.clone();
        if !is_point(g.ty) && has_m(g.ty) {
            let nd = f64::from_bits(NO_DATA_BITS);
            for p in g.parts.iter_mut() {
                for v in p.pts.iter_mut() {
                    let m = f64::from_bits(v[3]);
                    if m.is_nan() || m <= nd {
                        v[3] = NO_DATA_BITS;
                    }
                }
            }
        }
        g
    }
    pub fn short(&self) -> String {
        format!(
            "{}[{}]",
            type_name(self.ty),
            self.parts.iter().map(|p| format!("{}:{}", p.kind, p.pts.len())).collect::<Vec<_>>().join(",")
        )
    }
}

/// Recipe for a library shape: built only through public constructors.
#[derive(Clone, Debug, PartialEq, Eq, Hash, Serialize, Deserialize)]
pub struct ShapeSpec {
    pub ty: i32,
    pub parts: Vec<Part>,
    /// constructor variant, modulo 3: 0 = `new` when one part else `with_parts/with_rings`; 1 = always the
    /// plural constructor; 2 = polygon rings through `PolygonRing::from(vec)`, multipoint through `From<Vec>`;
    /// divided by 3: 0 = the constructed value itself, 1 = its `Clone::clone()`, 2 = another shape of
    /// the type (far away) overwritten with `Clone::clone_from(&constructed)`
    #[serde(default)]
    pub ctor: u8,
}

fn pt(v: &V) -> Point {
    Point::new(f64::from_bits(v[0]), f64::from_bits(v[1]))
}
fn ptm(v: &V) -> PointM {
    PointM::new(f64::from_bits(v[0]), f64::from_bits(v[1]), f64::from_bits(v[3]))
}
fn ptz(v: &V) -> PointZ {
    PointZ::new(f64::from_bits(v[0]), f64::from_bits(v[1]), f64::from_bits(v[2]), f64::from_bits(v[3]))
}

pub trait Pt: Copy {
    fn from_v(v: &V) -> Self;
    fn to_v(&self) -> V;
}
impl Pt for Point {
    fn from_v(v: &V) -> Self {
        pt(v)
    }
    fn to_v(&self) -> V {
        [self.x.to_bits(), self.y.to_bits(), 0, 0]
    }
}
impl Pt for PointM {
    fn from_v(v: &V) -> Self {
        ptm(v)
    }
    fn to_v(&self) -> V {
        [self.x.to_bits(), self.y.to_bits(), 0, self.m.to_bits()]
    }
}
impl Pt for PointZ {
    fn from_v(v: &V) -> Self {
        ptz(v)
    }
    fn to_v(&self) -> V {
        [self.x.to_bits(), self.y.to_bits(), self.z.to_bits(), self.m.to_bits()]
    }
}

fn pts<P: Pt>(p: &Part) -> Vec<P> {
    p.pts.iter().map(P::from_v).collect()
}

/// The value as the caller may well hold it: the original, a clone, or a buffer refilled by `clone_from`.
fn held<T: Clone>(mode: u8, built: T, other: impl FnOnce() -> T) -> T {
    match mode {
        1 => built.clone(),
        2 => {
            let mut o = other();
            o.clone_from(&built);
            o
        }
        _ => built,
    }
}

const FAR: [V; 4] = [
    [0x412E_8480_0000_0000, 0x412E_8480_0000_0000, 0x40F8_6A00_0000_0000, 0x40F8_6A00_0000_0000],
    [0x412E_8490_0000_0000, 0x412E_8480_0000_0000, 0x40F8_6A00_0000_0000, 0x40F8_6A00_0000_0000],
    [0x412E_8490_0000_0000, 0x412E_8490_0000_0000, 0x40F8_6A10_0000_0000, 0x40F8_6A10_0000_0000],
    [0x412E_8480_0000_0000, 0x412E_8480_0000_0000, 0x40F8_6A00_0000_0000, 0x40F8_6A00_0000_0000],
];

fn build_polyline<P>(s: &ShapeSpec) -> GenericPolyline<P>
where
    P: Pt + record::traits::ShrinkablePoint + record::traits::GrowablePoint,
{
    let built = if s.parts.len() == 1 && s.ctor % 3 == 0 {
        GenericPolyline::<P>::new(pts(&s.parts[0]))
    } else {
        GenericPolyline::<P>::with_parts(s.parts.iter().map(pts::<P>).collect())
    };
    held(s.ctor / 3, built, || GenericPolyline::<P>::new(FAR[..2].iter().map(P::from_v).collect()))
}

fn build_polygon<P>(s: &ShapeSpec) -> GenericPolygon<P>
where
    P: Pt + record::traits::ShrinkablePoint + record::traits::GrowablePoint + record::traits::HasXY + PartialEq,
{
    let ring = |p: &Part| -> PolygonRing<P> {
        if s.ctor % 3 == 2 {
            PolygonRing::from(pts::<P>(p))
        } else if p.kind == 1 {
            PolygonRing::Inner(pts(p))
        } else {
            PolygonRing::Outer(pts(p))
        }
    };
    let built = if s.parts.len() == 1 && s.ctor % 3 == 0 {
        GenericPolygon::<P>::new(ring(&s.parts[0]))
    } else {
        GenericPolygon::<P>::with_rings(s.parts.iter().map(ring).collect())
    };
    held(s.ctor / 3, built, || GenericPolygon::<P>::new(PolygonRing::Outer(FAR.iter().map(P::from_v).collect())))
}

fn build_multipoint<P>(s: &ShapeSpec) -> GenericMultipoint<P>
where
    P: Pt + record::traits::ShrinkablePoint + record::traits::GrowablePoint,
{
    let all: Vec<P> = s.parts.iter().flat_map(|p| p.pts.iter().map(P::from_v)).collect();
    let built = if s.ctor % 3 == 2 { GenericMultipoint::<P>::from(all) } else { GenericMultipoint::<P>::new(all) };
    held(s.ctor / 3, built, || GenericMultipoint::<P>::new(FAR[..3].iter().map(P::from_v).collect()))
}

fn build_multipatch(s: &ShapeSpec) -> Multipatch {
    let patch = |p: &Part| -> Patch {
        let v: Vec<PointZ> = pts(p);
        match p.kind {
            0 => Patch::TriangleStrip(v),
            1 => Patch::TriangleFan(v),
            2 => Patch::OuterRing(v),
            3 => Patch::InnerRing(v),
            4 => Patch::FirstRing(v),
            _ => Patch::Ring(v),
        }
    };
    let built = if s.parts.len() == 1 && s.ctor % 3 == 0 { Multipatch::new(patch(&s.parts[0])) } else { Multipatch::with_parts(s.parts.iter().map(patch).collect()) };
    held(s.ctor / 3, built, || Multipatch::new(Patch::TriangleStrip(FAR[..3].iter().map(PointZ::from_v).collect())))
}

/// Does the spec respect the constructors' preconditions (so that `build` cannot panic by contract)?
pub fn spec_ok(s: &ShapeSpec) -> bool {
    if !TYPES.contains(&s.ty) || s.parts.is_empty() {
        return false;
    }
    if is_point(s.ty) {
        return s.parts.len() == 1 && s.parts[0].pts.len() == 1;
    }
    let min_pts = if is_polyline(s.ty) { 2 } else { 1 };
    if is_multipoint(s.ty) {
        return s.n_points() >= 1;
    }
    s.parts.iter().all(|p| p.pts.len() >= min_pts)
}

impl ShapeSpec {
    pub fn n_points(&self) -> usize {
        self.parts.iter().map(|p| p.pts.len()).sum()
    }
}

pub fn build(s: &ShapeSpec) -> Shape {
    match s.ty {
        1 => Shape::Point(pt(&s.parts[0].pts[0])),
        21 => Shape::PointM(ptm(&s.parts[0].pts[0])),
        11 => Shape::PointZ(ptz(&s.parts[0].pts[0])),
        3 => Shape::Polyline(build_polyline::<Point>(s)),
        23 => Shape::PolylineM(build_polyline::<PointM>(s)),
        13 => Shape::PolylineZ(build_polyline::<PointZ>(s)),
        5 => Shape::Polygon(build_polygon::<Point>(s)),
        25 => Shape::PolygonM(build_polygon::<PointM>(s)),
        15 => Shape::PolygonZ(build_polygon::<PointZ>(s)),
        8 => Shape::Multipoint(build_multipoint::<Point>(s)),
        28 => Shape::MultipointM(build_multipoint::<PointM>(s)),
        18 => Shape::MultipointZ(build_multipoint::<PointZ>(s)),
        31 => Shape::Multipatch(build_multipatch(s)),
        _ => Shape::NullShape,
    }
}

fn bb2(b: &record::GenericBBox<Point>) -> [u64; 8] {
    [b.min.x.to_bits(), b.min.y.to_bits(), b.max.x.to_bits(), b.max.y.to_bits(), 0, 0, 0, 0]
}
fn bbm(b: &record::GenericBBox<PointM>) -> [u64; 8] {
    [
        b.min.x.to_bits(),
        b.min.y.to_bits(),
        b.max.x.to_bits(),
        b.max.y.to_bits(),
        0,
        0,
        b.min.m.to_bits(),
        b.max.m.to_bits(),
    ]
}
fn bbz(b: &record::GenericBBox<PointZ>) -> [u64; 8] {
    [
        b.min.x.to_bits(),
        b.min.y.to_bits(),
        b.max.x.to_bits(),
        b.max.y.to_bits(),
        b.min.z.to_bits(),
        b.max.z.to_bits(),
        b.min.m.to_bits(),
        b.max.m.to_bits(),
    ]
}

fn cap_line<P: Pt>(ty: i32, l: &GenericPolyline<P>, bbox: [u64; 8]) -> Geom {
    Geom {
        ty,
        parts: l.parts().iter().map(|p| Part { kind: -1, pts: p.iter().map(|v| v.to_v()).collect() }).collect(),
        bbox: Some(bbox),
    }
}
fn cap_poly<P: Pt>(ty: i32, l: &GenericPolygon<P>, bbox: [u64; 8]) -> Geom {
    Geom {
        ty,
        parts: l
            .rings()
            .iter()
            .map(|r| Part {
                kind: match r {
                    PolygonRing::Outer(_) => 0,
                    PolygonRing::Inner(_) => 1,
                },
                pts: r.points().iter().map(|v| v.to_v()).collect(),
            })
            .collect(),
        bbox: Some(bbox),
    }
}
fn cap_mp<P: Pt>(ty: i32, l: &GenericMultipoint<P>, bbox: [u64; 8]) -> Geom {
    Geom { ty, parts: vec![Part { kind: -1, pts: l.points().iter().map(|v| v.to_v()).collect() }], bbox: Some(bbox) }
}

/// Capture a library shape through its public accessors.
pub fn capture(s: &Shape) -> Geom {
    let single = |ty: i32, v: V| Geom { ty, parts: vec![Part { kind: -1, pts: vec![v] }], bbox: None };
    match s {
        Shape::NullShape => Geom::null(),
        Shape::Point(p) => single(1, p.to_v()),
        Shape::PointM(p) => single(21, p.to_v()),
        Shape::PointZ(p) => single(11, p.to_v()),
        Shape::Polyline(l) => cap_line(3, l, bb2(l.bbox())),
        Shape::PolylineM(l) => cap_line(23, l, bbm(l.bbox())),
        Shape::PolylineZ(l) => cap_line(13, l, bbz(l.bbox())),
        Shape::Polygon(l) => cap_poly(5, l, bb2(l.bbox())),
        Shape::PolygonM(l) => cap_poly(25, l, bbm(l.bbox())),
        Shape::PolygonZ(l) => cap_poly(15, l, bbz(l.bbox())),
        Shape::Multipoint(l) => cap_mp(8, l, bb2(l.bbox())),
        Shape::MultipointM(l) => cap_mp(28, l, bbm(l.bbox())),
        Shape::MultipointZ(l) => cap_mp(18, l, bbz(l.bbox())),
        Shape::Multipatch(mp) => Geom {
            ty: 31,
            parts: mp
                .patches()
                .iter()
                .map(|p| Part {
                    kind: match p {
                        Patch::TriangleStrip(_) => 0,
                        Patch::TriangleFan(_) => 1,
                        Patch::OuterRing(_) => 2,
                        Patch::InnerRing(_) => 3,
                        Patch::FirstRing(_) => 4,
                        Patch::Ring(_) => 5,
                    },
                    pts: p.points().iter().map(|v| v.to_v()).collect(),
                })
                .collect(),
            bbox: Some(bbz(mp.bbox())),
        },
    }
}

/// The variant code of a generic shape value, read off the enum itself (not via `shapetype()`).
pub fn variant_code(s: &Shape) -> i32 {
    match s {
        Shape::NullShape => 0,
        Shape::Point(_) => 1,
        Shape::Polyline(_) => 3,
        Shape::Polygon(_) => 5,
        Shape::Multipoint(_) => 8,
        Shape::PointZ(_) => 11,
        Shape::PolylineZ(_) => 13,
        Shape::PolygonZ(_) => 15,
        Shape::MultipointZ(_) => 18,
        Shape::PointM(_) => 21,
        Shape::PolylineM(_) => 23,
        Shape::PolygonM(_) => 25,
        Shape::MultipointM(_) => 28,
        Shape::Multipatch(_) => 31,
    }
}

/// Run `$body` with `$s` bound to the concrete shape inside a generic `Shape` (13 arms, each
/// monomorphised); `$null` is the value for a NullShape.
#[macro_export]
macro_rules! on_shape {
    ($sh:expr, $s:ident => $body:expr, $null:expr) => {
        match $sh {
            shapefile::Shape::Point($s) => $body,
            shapefile::Shape::PointM($s) => $body,
            shapefile::Shape::PointZ($s) => $body,
            shapefile::Shape::Polyline($s) => $body,
            shapefile::Shape::PolylineM($s) => $body,
            shapefile::Shape::PolylineZ($s) => $body,
            shapefile::Shape::Polygon($s) => $body,
            shapefile::Shape::PolygonM($s) => $body,
            shapefile::Shape::PolygonZ($s) => $body,
            shapefile::Shape::Multipoint($s) => $body,
            shapefile::Shape::MultipointM($s) => $body,
            shapefile::Shape::MultipointZ($s) => $body,
            shapefile::Shape::Multipatch($s) => $body,
            shapefile::Shape::NullShape => $null,
        }
    };
}

/// Run `$body` with the type alias `$S` bound to the concrete shape type of code `$code`.
#[macro_export]
macro_rules! on_type {
    ($code:expr, $S:ident => $body:expr, $other:expr) => {
        match $code {
            1 => { type $S = shapefile::Point; $body }
            21 => { type $S = shapefile::PointM; $body }
            11 => { type $S = shapefile::PointZ; $body }
            3 => { type $S = shapefile::Polyline; $body }
            23 => { type $S = shapefile::PolylineM; $body }
            13 => { type $S = shapefile::PolylineZ; $body }
            5 => { type $S = shapefile::Polygon; $body }
            25 => { type $S = shapefile::PolygonM; $body }
            15 => { type $S = shapefile::PolygonZ; $body }
            8 => { type $S = shapefile::Multipoint; $body }
            28 => { type $S = shapefile::MultipointM; $body }
            18 => { type $S = shapefile::MultipointZ; $body }
            31 => { type $S = shapefile::Multipatch; $body }
            _ => $other,
        }
    };
}

pub fn st_code(t: ShapeType) -> i32 {
    t as i32
}

/// Human-readable difference between two geometries (first difference only), or None if equal.
pub fn diff(expected: &Geom, got: &Geom, cmp_kind: bool, cmp_bbox: bool) -> Option<String> {
    if expected.ty != got.ty {
        return Some(format!("type {} vs {}", type_name(expected.ty), type_name(got.ty)));
    }
    if expected.parts.len() != got.parts.len() {
        return Some(format!("part count {} vs {}", expected.parts.len(), got.parts.len()));
    }
    for (i, (a, b)) in expected.parts.iter().zip(got.parts.iter()).enumerate() {
        if cmp_kind && a.kind != b.kind {
            return Some(format!("part {} kind {} vs {}", i, a.kind, b.kind));
        }
        if a.pts.len() != b.pts.len() {
            return Some(format!("part {} length {} vs {}", i, a.pts.len(), b.pts.len()));
        }
        for (j, (p, q)) in a.pts.iter().zip(b.pts.iter()).enumerate() {
            for d in 0..4 {
                if p[d] != q[d] {
                    return Some(format!(
                        "part {} vertex {} {} {:#018x} ({:e}) vs {:#018x} ({:e})",
                        i,
                        j,
                        ["x", "y", "z", "m"][d],
                        p[d],
                        f64::from_bits(p[d]),
                        q[d],
                        f64::from_bits(q[d])
                    ));
                }
            }
        }
    }
    if cmp_bbox && expected.bbox != got.bbox {
        return Some(format!("bbox {:x?} vs {:x?}", expected.bbox, got.bbox));
    }
    None
}
