import json,glob,os,re,sys
R=sys.argv[1]; pids=sys.argv[2:]
props={}
for l in open('/verif/properties.jsonl'):
    p=json.loads(l); props[p['id']]=p
tried={}
for d in sorted(glob.glob('/verif/seeded/*')):
    m=json.load(open(d+'/meta.json'))
    tried.setdefault(m['property'],[]).append(m['description'].split(' (same ')[0].split(' (the mechanism')[0][:220])
own={}
for f in sorted(glob.glob('/verif/mutants/*.txt')):
    t=open(f).read()
    m=re.search(r'^target: (\S+)',t,re.M)
    if m: own.setdefault(m.group(1),[]).append(os.path.basename(f)[4:-4].replace('-',' '))
COVER=""" - all 13 shape types, hundreds of thousands of random shapes built through every public constructor (also handed over as clone() / clone_from() copies), all float bit patterns incl. NaN/inf/subnormals/sentinel neighbours, shapes lying exactly at the origin, 0..40 shapes per file, files of up to 131072 records (also exactly 2^16 and 2^17, the last shape holding the extremes), shapes of up to 2049 parts and of up to 2^20 points in one part (4.2 million in one test; 2^16+7 points for every type, followed by another record), empty shapes with NaN boxes, single records of 2-3 GiB from user-defined shapes, single shapes of 8, 16 and 67 million points, polygon rings of tiny (2^-60, subnormal) but non-zero area judged by exact integer arithmetic;
 - every reading route: iter_shapes, iter_shapes_as, read, read_as, read_nth_shape(_as), seek, Iterator::nth / skip / step_by / last / count (also with arguments near usize::MAX, also followed by further iterations), size_hint after every item, shapefile::read / read_as / read_shapes / read_shapes_as by path (also through symbolic links, with .shp / .SHP / .Shp names and names that are not valid UTF-8, names without any directory component), sources that cannot seek at all, typed loops that stop at an error followed by further loops, iterators leaked with mem::forget, caller-defined dbase row types that fail to convert, Reader::read versus Reader::read_as from the same advanced state, Reader and ShapeReader, with and without .shx, plain cursors and BufReaders of many capacities, short reads of every chunk size and ErrorKind::Interrupted on every stream, seeks that move and then fail, I/O errors of each of 40 ErrorKinds on every seek, user-defined ReadableShape types that panic or that decode the whole record before reporting a mismatch, sources and BufReaders whose reads come back short inside filler bytes, headers that name another shape type than the records, indexes of exactly 4096 k entries, index entries whose length field disagrees with the record, the text of every error message naming shape types;
 - every short call sequence (exhaustively, to length 4-6) over the reader API and over the writer API (write_shape, finalize anywhere incl. before the first write, write_shapes (handed a Vec or a lazy iterator), drop, panic unwinding through the writer, reading the files after a finalize while the writer is still alive), by path over pre-existing longer files, several data sets in one directory with dotted names, destinations that are not at position 0 or already hold some older bytes when handed over, buffered destinations that are only lent (&mut) to the writer and inspected right after its drop, write-back destinations that commit on flush() only, a complete Writer built over a ShapeWriter that was already used, the bulk write_shapes_and_records call with accepted and with rejected pairs, histories of 2100 and 70000 records with a rejected write after every accepted one;
 - every single and double I/O fault position (error, Ok(0), Interrupted, disk full, seeks that move and then fail) on either destination with immediate / late / no retry and rejected writes in between, short writes of every chunk size, every crash point of both files incl. inside single writes and inside a 64 MiB record (read sequentially, by random access, both on one reader, in memory and by path), faults on the first and last operations of records larger than 1 MiB, every truncation length of both files (also of files whose records are stored out of index order), field-by-field corruption with boundary values and pairs of fields, declared counts from 10^3 to 2^31-1 with little data behind them (in and out of storage order, also with both files lying consistently), 400000 consecutive null records, files beyond 2 GiB on sparse streams in both directions, with failed finalize calls, the bulk write_shapes call after a finalize that failed, caller-defined shapes of every even size from 4 to 4096 bytes between finalize calls, shapes of 1025 and 2049 parts with a fault at every operation, header rewrites torn inside a single 8-byte double (huge or infinite old values against small new ones), a process whose standard error stream cannot be written to, the complete Reader with row types that fail to convert over cut and failing .shp sources, bulk conversion of vectors holding several shape kinds; everything built with overflow checks and debug assertions on;
 - foreign (not library-written) files: optional M blocks absent, null records, zero parts, empty parts, arbitrary record numbers, records stored out of physical order with filler (incl. filler of 2..6 bytes and filler that looks like a record header), trailing bytes, read in memory and by path, by one or two iterators; every shape read from such files written back through the writer and read again;
 - user-defined shape types (the EsriShape / WritableShape traits are public) of every type code incl. NullShape, announcing any size, failing half-way;
 - complete Writer/Reader with .dbf rows: rejected shapes, rows with missing fields or wrong value types, typed and generic pair iteration (next, nth), seek, by path (from_path and from_path_with_info), with and without .shx, .dbf headers declaring rows that are not there."""
for pid in pids:
    p=props[pid]
    avoid="\n".join("   - "+t for t in tried.get(pid,[])+own.get(pid,[]))
    open(f'{R}/{pid}.prompt.txt','w').write(f"""You are helping test a verification effort for the Rust crate shapefile-rs (reads and writes ESRI shapefiles: .shp/.shx binary geometry records; .dbf attributes are delegated to the `dbase` crate). You have your own scratch git worktree of the repository at {R}/{pid} (a detached checkout). Work ONLY inside {R}/{pid}. Do not read, list or touch /verif or /repo or any other directory under {R}. The machine is offline: use `cargo ... --offline` (all dependencies are already cached).

Here is a semantic property that the library is supposed to satisfy:

  Property {pid}: {p['title']}
  Statement: {p['statement']}
  Quantified over: {p['quantifier']['text']}

Your task: make ONE small, realistic change to the library source (under {R}/{pid}/src) that BREAKS this property, while
  (a) the crate still compiles, and
  (b) the existing test suite still passes unedited: `cd {R}/{pid} && cargo test --workspace --no-fail-fast --offline` (run it again if a doc-test fails spuriously: two doc-tests share a file name and race occasionally).

The change should look like a plausible mistake or regression a maintainer could make (a refactoring slip, an "optimisation", a wrong boundary, a reordered pair of statements, a forgotten update or restore of some state, an error path that leaves something behind, a wrong assumption about buffering or about what a trait method guarantees, a fast path with a subtly wrong guard, an overridden trait method whose default was fine, a helper shared by two call sites that only suits one), NOT an obviously malicious or absurd edit. It MUST need something SPECIFIC and RARE to manifest - ideally a combination of several ingredients. It must not be detectable by the existing tests.

Be aware that someone has ALREADY run very broad testing against this property, and your change should slip past ALL of the following:
{COVER}
Aim for something such testing could still plausibly miss: an ingredient NOT in this list (think about which public API items, trait impls, numeric ranges, platform or environment conditions, or state combinations are absent from it). The demonstration must stay within what the property quantifies over, use only honest inputs (user-defined trait implementations must keep their contracts), and must fail on a violation of the property itself.

Other people have already produced changes for this property. Do something DIFFERENT IN KIND from these (do not reuse the same mechanism or the same code site):
{avoid}

Then write a DEMONSTRATION: a small integration test file {R}/{pid}/tests/seeded_demo.rs (it may only use the crate's public API and std; the `dbase` crate is re-exported as `shapefile::dbase`) that FAILS with your change and PASSES without it. The demonstration must show a violation of the property AS STATED ABOVE (within what it quantifies over), not of some other expectation. Verify both directions yourself: run `cargo test --offline --test seeded_demo` with your change (must fail), then save and revert the source change WITHOUT using git stash (the stash is shared between worktrees): `git -C {R}/{pid} diff -- src > {R}/{pid}/change.patch && git -C {R}/{pid} checkout -- src`, run the demo again (must pass), then re-apply it: `git -C {R}/{pid} apply {R}/{pid}/change.patch`. Never run `git stash`, `git commit`, `git reset` or any command that touches branches.

When done, leave the worktree with your source change applied (uncommitted) and the demo test file present (untracked), and reply with:
 1. the unified diff of your source change (output of `git -C {R}/{pid} diff -- src`),
 2. a two-to-four sentence description of what the change breaks and exactly what is needed for it to manifest,
 3. the commands you ran and their outcomes (tests pass with change; demo fails with change; demo passes without change).
Do not commit anything. Do not modify existing tests. Keep the source change small (ideally under 15 changed lines).""")
print('ok')
