#!/bin/sh
# Re-bases every patch of mutants/ and seeded/ onto /repo's current HEAD (after a new fix: commit):
# tries `git apply`, then `git apply --3way` in a scratch worktree, and rewrites the patch from the
# resulting diff. Prints the ones that need manual attention.
HERE="$(cd "$(dirname "$0")/.." && pwd)"
S=/tmp/shpsim-rebase-$$; git -C /repo worktree add -q --detach "$S" HEAD || exit 2
trap 'git -C /repo worktree remove --force "$S" >/dev/null 2>&1; git -C /repo worktree prune' EXIT
for patch in "$HERE"/mutants/*.patch "$HERE"/seeded/*/patch.diff; do
  git -C "$S" reset -q --hard HEAD; git -C "$S" clean -qfd
  if git -C "$S" apply "$patch" 2>/dev/null; then
    :
  elif git -C "$S" apply --3way "$patch" >/dev/null 2>&1 && ! git -C "$S" diff --name-only --diff-filter=U | grep -q .; then
    echo "rebased (3-way): $patch"
  else
    echo "NEEDS MANUAL REBASE: $patch"; continue
  fi
  git -C "$S" reset -q            # unstage what --3way staged
  if ! (cd "$S" && cargo build --offline >/dev/null 2>&1); then echo "DOES NOT BUILD after rebase: $patch"; continue; fi
  git -C "$S" diff -- src > "$patch.new" && [ -s "$patch.new" ] && mv "$patch.new" "$patch"
done
