#!/usr/bin/env python3
"""Rewrites the table of section 13.6 of DESIGN.md from seeded/*/meta.json and mutants/results.tsv."""
import json, glob, os, re
HERE = os.path.dirname(os.path.dirname(os.path.abspath(__file__)))
res = {}
p = os.path.join(HERE, "mutants", "results.tsv")
if os.path.exists(p):
    for l in open(p):
        f = l.rstrip("\n").split("\t")
        if len(f) >= 5:
            res[f[0]] = (f[2], f[4].strip())
rows = []
for d in sorted(glob.glob(os.path.join(HERE, "seeded", "*", ""))):
    m = json.load(open(os.path.join(d, "meta.json")))
    name = os.path.basename(d[:-1])
    r = res.get("seeded/" + name, ("", ""))
    rows.append(f"| {name} | {m['property']} | {m['description']} | {m['needs']} | {r[1] or m.get('caught_by','')} |")
table = "| id | property | change | needs | checks that raise an alarm |\n|---|---|---|---|---|\n" + "\n".join(rows) + "\n"
s = open(os.path.join(HERE, "DESIGN.md")).read()
a = s.index("<!-- seeded-table-begin -->") + len("<!-- seeded-table-begin -->\n")
b = s.index("<!-- seeded-table-end -->")
s = s[:a] + table + s[b:]
open(os.path.join(HERE, "DESIGN.md"), "w").write(s)
print(len(rows), "rows")
