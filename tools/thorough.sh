#!/bin/sh
# Runs the thorough tier of every built check once; prints exit code and wall time of each.
HERE="$(cd "$(dirname "$0")/.." && pwd)"; cd "$HERE"
bad=0
for p in ${*:-$(cat tools/built.txt)}; do
  s=$(date +%s); out=$(./check $p --tier thorough 2>&1); rc=$?; e=$(date +%s)
  echo "$p exit=$rc wall=$((e-s))s $(echo "$out" | grep -E '^done' | cut -c1-160)"
  if [ $rc -ne 0 ]; then bad=1; echo "$out" | grep -E "^violation|harness|^also" | cut -c1-400; fi
done
exit $bad
