#!/bin/sh
# Ingest a change written by a sub-agent in its scratch worktree /tmp/seed/<WT>:
# copies patch + demonstration to /verif/seeded/<name>/, then confirms, in that scratch worktree,
# that (1) the existing suite passes with the change, (2) the demonstration fails with it,
# (3) the demonstration passes without it. usage: tools/ingest_seed.sh <WT> <name> <property>
WT=${SEEDDIR:-/tmp/seed}/$1; NAME=$2; PROP=$3
HERE="$(cd "$(dirname "$0")/.." && pwd)"; D="$HERE/seeded/$NAME"; mkdir -p "$D"
cd "$WT" || exit 2
git diff -- src > "$D/patch.diff"
[ -s "$D/patch.diff" ] || { echo "no source change in $WT"; exit 2; }
cp tests/seeded_demo.rs "$D/demo.rs" || exit 2
mv tests/seeded_demo.rs /tmp/seeded_demo_$$.rs
suite="pass"
cargo test --workspace --no-fail-fast --offline >/tmp/ingest-suite.log 2>&1 || cargo test --workspace --no-fail-fast --offline >/tmp/ingest-suite.log 2>&1 || suite="FAIL: $(grep -E '^test .* FAILED' /tmp/ingest-suite.log | head -3 | tr '\n' ' ')"
mv /tmp/seeded_demo_$$.rs tests/seeded_demo.rs
with="passes(!)"; cargo test --offline --test seeded_demo >/tmp/ingest-demo1.log 2>&1 || with="fails"
git checkout -- src
without="FAILS(!)"; cargo test --offline --test seeded_demo >/tmp/ingest-demo2.log 2>&1 && without="passes"
git apply "$D/patch.diff"
echo "suite with change: $suite; demo with change: $with; demo without change: $without"
python3 - "$D" "$PROP" "$suite" "$with" "$without" <<'PY'
import json,sys,os
d,prop,suite,w,wo=sys.argv[1:6]
meta_path=os.path.join(d,'meta.json')
meta=json.load(open(meta_path)) if os.path.exists(meta_path) else {}
meta.update({"property":prop,"confirmed":{"existing_suite_with_change":suite,"demo_with_change":w,"demo_without_change":wo,
  "how":"tools/ingest_seed.sh in the sub-agent's scratch worktree: cargo test --workspace (demo moved aside), cargo test --test seeded_demo with the change, git checkout -- src, cargo test --test seeded_demo, git apply"}})
meta.setdefault("needs","")
meta.setdefault("description","")
json.dump(meta,open(meta_path,'w'),indent=1)
PY
