#!/bin/sh
# Runs every built check under several VERIF_SEED values (quick tier); prints any non-zero exit.
# usage: tools/seeds.sh <from> <to> [ids...]
HERE="$(cd "$(dirname "$0")/.." && pwd)"
FROM=${1:-1}; TO=${2:-10}; shift 2 2>/dev/null
IDS="$*"; [ -z "$IDS" ] && IDS=$(cat "$HERE/tools/built.txt")
cd "$HERE/sim" && cargo build --release --offline >/dev/null 2>&1 || { echo "build failed"; exit 2; }
cd "$HERE"
bad=0
for s in $(seq $FROM $TO); do
  for p in $IDS; do
    out=$(VERIF_SEED=$s VERIF_DIR="$HERE" ./sim/target/release/shpsim check $p 2>&1); rc=$?
    if [ $rc -ne 0 ]; then bad=1; echo "seed=$s $p exit=$rc"; echo "$out" | grep -E "^violation|harness" | cut -c1-400; fi
  done
done
[ $bad -eq 0 ] && echo "all clean: seeds $FROM..$TO"
