#!/usr/bin/env python3
"""Regenerates /verif/MANIFEST.json from the table below (kept next to the code so that the
manifest, the claimed list in sim/src/checks.rs and DESIGN.md stay in step)."""
import json, os
HERE = os.path.dirname(os.path.dirname(os.path.abspath(__file__)))
SIM = "deterministic simulation (seeded scenario -> pure execution on simulated Read/Write/Seek devices)"
claimed = {
 "C01": ("exploration", "Seeded exploration in the fault-free configuration of the simulator, under must-be-masked short-transfer/EINTR schedules and buffer stacks: real writer -> simulated devices -> every reading route of the real reader, compared bit-for-bit with the geometry captured from the constructors.", "6.C01", SIM + ", reference-model oracle"),
 "C02": ("exploration", "Every .shp left on the simulated device is validated by a strict decoder written independently from the ESRI whitepaper (no shared code) and must decode to exactly the geometry handed to the writer.", "6.C02", SIM + ", independent reference decoder"),
 "C03": ("exploration", "Stub producer (independent reference encoder, foreign layouts the library never writes) -> real reader on simulated sources under short-read schedules; decoded geometry must equal the generated model.", "6.C03", SIM + ", independent reference encoder as foreign producer"),
 "C04": ("exploration", ".shx bytes checked against record boundaries found by the independent decoder; count / random access / size hints / with-vs-without-index agreement checked on the real reader, in memory and by path.", "6.C04", SIM + ", independent reference decoder"),
 "C05": ("exploration", "Independent min/max over the captured vertices compared with constructed boxes, record boxes, header bytes and the reader's header, with extremes at sentinel-adjacent and infinite values, over writer histories with intermediate finalize calls.", "6.C05", SIM + ", reference-model oracle over writer histories"),
 "C06": ("exploration", "Exhaustive 13x13 typed-read / bulk-conversion / TryFrom matrix on every file that flows through the runs, null-record files from the reference encoder, plus type identity of every generic value.", "6.C06", SIM + ", exhaustive type matrix per file"),
 "C07": ("fault_enumeration", "Storage-corruption faults applied to files the real writer produced: every 32-bit field x every boundary value, every truncation length, extensions, bit flips, garbage; every reader entry point driven under catch_unwind with item caps, in worker processes with a watchdog (abort / hang detection).", "6.C07", SIM + ", stored-data fault enumeration, process-level watchdog"),
 "C08": ("exploration", "Histories of write_shape_and_record calls in which some fail, through the complete Writer on three simulated devices; entry counts of shp/shx/dbf by independent scan after every call and at the end; complete Reader must return the pairs in order.", "6.C08", SIM + ", writer-history sweep with failing calls"),
 "C09": ("exploration", "All sequences over {write a, write b, finalize} up to a bounded length x endings x types x index x stacks, each compared byte-for-byte with 'same shapes, drop'; device content after every successful finalize judged by the independent decoder; idle finalize must cause no device event.", "6.C09", SIM + ", exhaustive bounded writer histories with API-call event brackets"),
 "C10": ("exploration", "All 13x12 ordered type pairs x bounded histories x positions of the rejected call: exact error, empty device-event range, files identical to the history without the rejected calls.", "6.C10", SIM + ", exhaustive bounded writer histories with API-call event brackets"),
 "C11": ("fault_enumeration", "Crash-point enumeration: one recorded execution per workload, every (prefix of .shp operations, byte cut) x (prefix of .shx operations, byte cut) image pair rebuilt from the event log and handed to the real reader with and without index; prefix and durability oracles.", "6.C11", SIM + ", crash-image reconstruction from the device event log"),
 "C12": ("fault_enumeration", "For every operation k a workload issues on each destination: one-shot / persistent error, Ok(0), EINTR, disk-full, and every short-write schedule; surfacing judged with API-call event brackets; finalize retried immediately must yield golden bytes.", "6.C12", SIM + ", destination fault injection at every operation index"),
 "C13": ("fault_enumeration", "Every truncation length of .shp and .shx, every failing read/seek k of a traversal, short-read and EINTR schedules, directly and through BufReader; only genuine shapes before the first error, whole records returned, cut record an I/O error.", "6.C13", SIM + ", source fault injection and truncation at every point"),
 "C14": ("exploration", "Reference encoder lays records out in every physical permutation (n<=4) with arbitrary filler; real reader with index must yield one shape per entry in index order, agreeing with random access and count.", "6.C14", SIM + ", independent reference encoder as foreign producer"),
 "C15": ("exploration", "All reader call sequences up to a bounded length over {iterate j, read_nth i, seek k, count} checked against a nondeterministic reference model (set of allowed continuations), for ShapeReader with/without index and the complete Reader.", "6.C15", SIM + ", exhaustive bounded reader histories against a nondeterministic reference model"),
 "C17": ("fault_enumeration", "Mutually consistent count/length corruptions (declared counts 10^3..max with matching lengths, no data behind) and all C07 inputs, with a counting global allocator judging peak live bytes and largest request per reader call against 64 x input + 64 KiB.", "6.C17", SIM + ", consistent-corruption ladder with allocator monitor"),
 "C18": ("exploration", "Bytes handed to the .shp device per write call (counted at the seam, above any buffer) and bytes emitted by write_to vs size_in_bytes(); content-length field via the independent decoder; dense grid + seeded larger shapes.", "6.C18", SIM + ", byte accounting at the device seam"),
}
na = [
 {"property_id": "C16", "reason": "pure function of constructor arguments: no stream, device, fault, schedule or cross-call state for a simulator to own (DESIGN 11)"},
 {"property_id": "C19", "reason": "finite pure mapping over all 2^32 codes: its decision procedure is exhaustive enumeration, a different technique; no I/O, schedule or fault in it (DESIGN 11)"},
 {"property_id": "C20", "reason": "feature-gated pure value conversions between in-memory types; no I/O surface, state or fault (DESIGN 11)"},
]
built = [l.strip() for l in open(os.path.join(HERE, "tools", "built.txt")) if l.strip()]
checks = []
for pid in sorted(built):
    lvl, text, ref, tech = claimed[pid]
    checks.append({
        "property_id": pid,
        "quick_cmd": f"./check {pid} --tier quick",
        "thorough_cmd": f"./check {pid} --tier thorough",
        "evidence_file": f"evidence/{pid}.json",
        "replay_cmd_template": "./check replay {path}",
        "engine": "shpsim",
        "level_claimed": {"category": lvl, "text": text, "design_ref": ref},
        "level_note": "Trusted: the simulator's device model (SimHandle), the independent reference encoder/decoder and models, rustc/std. Sampling, not proof: the evidence file reports runs, seeds, steps, faults fired and distinct cases; bounded sweeps are complete only up to the stated bound.",
        "technique": tech,
    })
m = {
 "version": 1,
 "setup_cmd": "cd sim && CARGO_NET_OFFLINE=true cargo build --release --offline",
 "hooks": {"guard": "shapefile_rs_verif", "enable": "no hooks are needed: every I/O surface of the library is already a generic Read/Write/Seek parameter, which the simulator instantiates with its own devices; the guard name is reserved and unused", "baseline_off_cmd": "cd /repo && cargo test --workspace --no-fail-fast --offline", "source_commits": [], "add_only": True},
 "engines": [{"name": "shpsim", "path": "sim", "serves_properties": sorted(built), "kind_free_text": "deterministic simulator over the library's Read/Write/Seek seams: seeded scenarios, fault plans, event log with API-call brackets, crash-image reconstruction, reference models, minimising replay"}],
 "checks": checks,
 "not_applicable": na,
 "notes": "See DESIGN.md. Exit codes: 0 held, 1 violation (VIOLATION lines), 2 harness error. Known findings: known_findings.jsonl.",
}
json.dump(m, open(os.path.join(HERE, "MANIFEST.json"), "w"), indent=1)
print("MANIFEST.json:", len(checks), "checks")
