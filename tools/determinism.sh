#!/bin/sh
# Determinism proof: every quick check is run under several VERIF_SEED values, each at 16, 5 and 1
# workers and under a changed environment (TMPDIR, RUST_BACKTRACE, LANG); the evidence files must
# agree on evaluations, logical steps, distinct cases, faults fired, reach counters and on the
# execution digest (a hash over every device event of every simulated world).
# usage: tools/determinism.sh [seed-from seed-to] [ids...]      exit 0 = deterministic, 2 = divergence
HERE="$(cd "$(dirname "$0")/.." && pwd)"
FROM=${1:-1}; TO=${2:-3}; shift 2 2>/dev/null
IDS="$*"; [ -z "$IDS" ] && IDS=$(cat "$HERE/tools/built.txt")
cd "$HERE/sim" && cargo build --release --offline >/dev/null 2>&1 || { echo "build failed"; exit 2; }
cd "$HERE"
BIN="$HERE/sim/target/release/shpsim"
OUT=$(mktemp -d)
key() { python3 - "$1" <<'PY'
import json,sys
e=json.load(open(sys.argv[1]))
c=e["coverage"]
print(json.dumps([c["evaluations"],c["logical_steps"],c["distinct_nontrivial"],c["faults_fired"],c["reach"],c["execution_digest"],e["violations"]],sort_keys=True))
PY
}
bad=0; n=0
for s in $(seq $FROM $TO); do
  for p in $IDS; do
    ref=""
    for cfg in "16:plain" "5:plain" "1:plain" "16:env"; do
      w=${cfg%%:*}; mode=${cfg##*:}
      if [ "$mode" = env ]; then
        mkdir -p "$OUT/tmp2"
        VERIF_SEED=$s VERIF_DIR="$HERE" TMPDIR="$OUT/tmp2" RUST_BACKTRACE=1 LANG=C "$BIN" check $p --workers $w >/dev/null 2>&1
      else
        VERIF_SEED=$s VERIF_DIR="$HERE" "$BIN" check $p --workers $w >/dev/null 2>&1
      fi
      k=$(key "$HERE/evidence/$p.json")
      n=$((n+1))
      if [ -z "$ref" ]; then ref="$k"; elif [ "$k" != "$ref" ]; then bad=1; echo "DIVERGENCE seed=$s $p workers=$w mode=$mode"; echo " ref: $(echo "$ref" | cut -c1-300)"; echo " got: $(echo "$k" | cut -c1-300)"; fi
    done
  done
done
rm -rf "$OUT"
echo "determinism: $n runs compared, divergences: $bad"
[ $bad -eq 0 ] || exit 2
